//! Byte -> structured case decoders for the libFuzzer targets (hand-written over `arbitrary::Unstructured`;
//! every byte string decodes to a valid case, so the fuzzer reaches the logic instead of dying in validation).

use arbitrary::Unstructured;

use crate::case::*;
use crate::sketch::{HashSel, SketchCase, SketchLevel, SketchOp};

fn pick<'a, T: Clone>(u: &mut Unstructured<'a>, items: &[T]) -> T {
    let index = u.int_in_range(0..=(items.len() - 1)).unwrap_or(0);
    items[index].clone()
}

fn byte(u: &mut Unstructured) -> u8 { u.arbitrary::<u8>().unwrap_or(0) }

fn wsel(u: &mut Unstructured) -> WSel {
    match byte(u) % 9 {
        0 | 1 => WSel::Abs(1 + (byte(u) % 64) as i64),
        2 | 3 => WSel::Sixteenth(1 + byte(u) % 16),
        4 => WSel::Limit,
        5 => WSel::LimitMinus(1 + (byte(u) % 2) as i64),
        6 => WSel::LimitPlus(1 + (byte(u) % 2) as i64),
        7 => WSel::Current,
        _ => WSel::TwiceLimit,
    }
}

fn ttl(u: &mut Unstructured) -> TtlSel {
    match byte(u) % 8 {
        0 => TtlSel::Zero,
        1 => TtlSel::Nanos(1 + (byte(u) % 3) as u32),
        2 => TtlSel::Millis(1 + u.int_in_range(0..=998u32).unwrap_or(0)),
        3 | 4 | 5 => TtlSel::Secs((byte(u) % 7) as u32),
        6 => TtlSel::SecsNanos((byte(u) % 5) as u32, u.int_in_range(0..=999_999_999u32).unwrap_or(1)),
        _ => TtlSel::Days(1 + (byte(u) % 200) as u32),
    }
}

fn write_op(u: &mut Unstructured, max_key: u8) -> Op {
    let k = byte(u) % max_key;
    match byte(u) % 6 {
        0 | 1 | 2 => Op::Put { k, w: if byte(u) % 3 == 0 { None } else { Some(wsel(u)) }, ttl: if byte(u) % 2 == 0 { None } else { Some(ttl(u)) } },
        3 | 4 => Op::Upsert {
            k,
            value: byte(u) % 2 == 0,
            w: if byte(u) % 2 == 0 { None } else { Some(wsel(u)) },
            ttl: match byte(u) % 4 { 0 | 1 => TtlReq::Keep, 2 => TtlReq::Set(ttl(u)), _ => TtlReq::Remove },
        },
        _ => Op::Delete { k },
    }
}

fn read_op(u: &mut Unstructured, max_key: u8) -> Op {
    let kind = READ_KINDS[(byte(u) % 7) as usize];
    let count = 1 + byte(u) % 4;
    Op::Read { kind, keys: (0..count).map(|_| byte(u) % max_key).collect() }
}

pub fn seq_case_from_bytes(data: &[u8]) -> SeqCase {
    let mut u = Unstructured::new(data);
    let u = &mut u;
    let max_key = 2 + byte(u) % 6;
    let cfg = Cfg {
        counters: pick(u, &[2u64, 4, 10, 64, 1000]),
        capacity: 16,
        max_weight: pick(u, &[1i64, 7, 60, 100, 100, 1000, 4000]),
        shards: pick(u, &[2usize, 4, 8]),
        cmd_buf: pick(u, &[1usize, 2, 8, 64]),
        pool: 1 + (byte(u) % 3) as usize,
        buf: 1 + (byte(u) % 8) as usize,
        tick_us: 300,
        hash: pick(u, &[HashMode::Identity, HashMode::Identity, HashMode::Constant, HashMode::Mod2, HashMode::Default]),
        weight_mode: if byte(u) % 3 == 0 { WeightMode::Default } else { WeightMode::Table((0..(1 + byte(u) % 4)).map(|_| 1 + (byte(u) % 60) as i64).collect()) },
        start_ns: (byte(u) % 8) as u64 * 1_000_000_000 + pick(u, &[0u64, 999_999_999, 500_000_000]),
        noise_readers: 0,
        prelude: if byte(u) % 8 == 0 { Some(Prelude { counters: 64, shards: pick(u, &[2usize, 4, 256]), cmd_buf: 8, pool: pick(u, &[2usize, 8, 32]), buf: pick(u, &[1usize, 64]), keys: 1 + byte(u) % 8, reads: byte(u) % 30, keep_alive: byte(u) % 2 == 0 }) } else { None },
    };
    let mut ops = Vec::new();
    while !u.is_empty() && ops.len() < 80 {
        let op = match byte(u) % 16 {
            0..=6 => write_op(u, max_key),
            7 | 8 | 9 => read_op(u, max_key),
            10 => Op::Touch { k: byte(u) % max_key, n: 1 + byte(u) % 20 },
            11 => Op::Advance(match byte(u) % 5 {
                0 => AdvSel::Nanos(1 + (byte(u) % 3) as u32),
                1 => AdvSel::Millis(1 + u.int_in_range(0..=998u32).unwrap_or(0)),
                2 => AdvSel::Secs(1 + (byte(u) % 5) as u32),
                _ => AdvSel::ToDeadline { k: byte(u) % max_key, delta: (byte(u) % 3) as i8 - 1 },
            }),
            12 => if byte(u) % 2 == 0 { Op::DeadlineWalk { k: byte(u) % max_key } } else {
                Op::JumpDuring { after_reads: byte(u) % 4, by_ms: pick(u, &[1u32, 500, 1001, 2500]), op: Box::new(write_op(u, max_key)) }
            },
            13 if byte(u) % 3 == 0 => Op::ExpiredWrite { k: byte(u) % max_key, past_ms: pick(u, &[0u32, 1, 998, 1500, 3000]), write: Box::new(write_op(u, max_key)), read_first: byte(u) % 2 == 0 },
            13 => if byte(u) % 4 == 0 { Op::Fill { first: byte(u) % 100, count: 10 + byte(u) % 60, w: 1 + byte(u) % 5, ttl: if byte(u) % 2 == 0 { None } else { Some(TtlSel::Secs((byte(u) % 7) as u32)) } } } else { Op::SweepRotation },
            14 => if byte(u) % 2 == 0 { Op::ReadAll { keys: vec![byte(u) % max_key] } } else {
                let count = 2 + byte(u) % 3;
                Op::IterSteps { map: byte(u) % 2 == 0, keys: (0..count).map(|_| byte(u) % max_key).collect(), between: (0..count - 1).map(|_| write_op(u, max_key)).collect() }
            },
            _ => {
                let count = 1 + byte(u) % 6;
                Op::Stall { burst: (0..count).map(|_| match byte(u) % 8 { 0 => read_op(u, max_key), 1 => Op::StepWorker, _ => write_op(u, max_key) }).collect() }
            }
        };
        ops.push(op);
    }
    SeqCase { cfg, ops }
}

fn hash_sel(u: &mut Unstructured) -> HashSel {
    match byte(u) % 6 {
        0 | 1 => HashSel::Hot(byte(u) % 6),
        2 => HashSel::Distinct(u.arbitrary::<u64>().unwrap_or(0)),
        3 => HashSel::Extreme(byte(u) % 8),
        4 => HashSel::Collide { base: byte(u) % 6, j: (byte(u) % 64) as u16 },
        _ => HashSel::Neighbour { base: byte(u) % 6 },
    }
}

pub fn sketch_case_from_bytes(data: &[u8]) -> SketchCase {
    let mut u = Unstructured::new(data);
    let u = &mut u;
    let level = match byte(u) % 8 { 0 => SketchLevel::Row, 1 | 2 | 3 => SketchLevel::Counter, _ => SketchLevel::TinyLfu };
    let counters = match byte(u) % 4 {
        0 => pick(u, &[1u64, 2, 3, 5, 17, 100, 1000]),
        1 => { let power = byte(u) % 17; ((1i64 << power) + (byte(u) % 3) as i64 - 1).max(1) as u64 }
        _ => 1 + u.int_in_range(0..=299u64).unwrap_or(0),
    };
    let row: Vec<u8> = (0..(1 + byte(u) % 8)).map(|_| byte(u)).collect();
    let mut ops = Vec::new();
    while !u.is_empty() && ops.len() < 200 {
        ops.push(match byte(u) % 16 {
            0..=8 => SketchOp::Access(hash_sel(u)),
            9 | 10 | 11 => SketchOp::Burst(hash_sel(u), 1 + byte(u) % 40),
            12 => SketchOp::Estimate(hash_sel(u)),
            13 => { let count = 2 + byte(u) % 10; SketchOp::Batch((0..count).map(|_| hash_sel(u)).collect()) }
            14 => SketchOp::Reset,
            _ => SketchOp::Clear,
        });
    }
    SketchCase { level, counters, row, ops }
}
