//! CONC engine: generated concurrent programs against one real cache, with generated delay injection at the
//! hook schedule points, a logged history with global stamps, and pure history checkers (DESIGN.md 3.1).

use std::collections::{BTreeMap, BTreeSet, HashMap};
use std::panic::{catch_unwind, AssertUnwindSafe};
use std::sync::atomic::{AtomicBool, AtomicU64, Ordering};
use std::sync::{Arc, Barrier, Mutex};
use std::time::{Duration, Instant};

use proptest::prelude::*;
use serde::{Deserialize, Serialize};
use tinylfu_cached::cache::cached::CacheD;
use tinylfu_cached::cache::command::acknowledgement::CommandAcknowledgement;
use tinylfu_cached::cache::put_or_update::PutOrUpdateRequestBuilder;
use tinylfu_cached::cache::stats::StatsType;
use tinylfu_cached::cache::verif::{self, Event, Instance, Site, Snapshot, SITES};

use crate::base::*;
use crate::case::*;
use crate::model::Failure;

#[derive(Clone, Debug, PartialEq, Eq, Hash, Serialize, Deserialize)]
pub enum COp {
    Put { k: u8, extra: u8, explicit: bool, ttl: Option<TtlSel>, wait: bool },
    /// always carries a value and an explicit weight base(k) - down (never raises the weight: known finding F5)
    Upsert { k: u8, down: u8, ttl: TtlReq, wait: bool },
    Delete { k: u8, wait: bool },
    Read { kind: ReadKind, keys: Vec<u8> },
    /// keep a get_ref guard alive for some microseconds without calling back into the cache
    HoldRef { k: u8, micros: u16 },
    Shutdown,
    AwaitAll,
    Pause(u8),
    /// move the harness clock forward (programs under controlled scheduling drive the clock themselves)
    Advance { ms: u32 },
    /// fire and forget: put_with_weight whose acknowledgement is dropped at once, never polled
    Forget { k: u8 },
}

#[derive(Clone, Debug, PartialEq, Eq, Hash, Serialize, Deserialize)]
pub enum Delay {
    Spin(u16),
    Yield(u8),
    SleepUs(u16),
}

#[derive(Clone, Debug, PartialEq, Eq, Hash, Serialize, Deserialize)]
pub struct Injection {
    /// (site index, probability per 256, delay)
    pub sites: Vec<(u8, u8, Delay)>,
    pub seed: u64,
}

/// Controlled scheduling (PCT style) over the hook schedule points: only the highest-priority thread parked at a point
/// runs; priorities are given to threads in order of their first appearance; at the listed step numbers the thread that
/// is running drops to the lowest priority. A thread that does not reach its next point within a short time-out is
/// taken to be blocked or idle and the next one is elected, so the execution is serialised at point granularity.
#[derive(Clone, Debug, PartialEq, Eq, Hash, Serialize, Deserialize)]
pub struct SchedPlan {
    pub priorities: Vec<u8>,
    pub change_points: Vec<u16>,
}

#[derive(Clone, Debug, PartialEq, Eq, Hash, Serialize, Deserialize)]
pub struct ClockStep {
    pub pause_us: u16,
    pub advance_ms: u32,
}

#[derive(Copy, Clone, Debug, PartialEq, Eq, Hash, Serialize, Deserialize)]
pub enum ConsumerMode {
    Free,
    Stalled,
    StalledThenReleased,
}

#[derive(Clone, Debug, PartialEq, Eq, Hash, Serialize, Deserialize)]
pub struct ConcCase {
    pub cfg: Cfg,
    pub threads: Vec<Vec<COp>>,
    pub injection: Injection,
    pub clock: Vec<ClockStep>,
    pub monitor: bool,
    pub consumer: ConsumerMode,
    #[serde(default)]
    pub sched: Option<SchedPlan>,
}

pub fn base_weight(k: u8) -> i64 { 8 + (k as i64 % 5) * 3 }

// ---------------------------------------------------------------------------------------------
// History

#[derive(Clone, Debug, Serialize)]
pub enum Outcome {
    Read { keys: Vec<u8>, values: Vec<Option<u64>> },
    Write {
        key: u8,
        /// value token written (puts and upserts)
        token: Option<u64>,
        kind: &'static str,
        err: bool,
        ack: usize,
        immediate: Option<St>,
        status: Option<St>,
        /// stamp at which the harness saw the acknowledgement complete
        seen_done: u64,
        in_place: Option<bool>,
        ttl_ns: Option<u128>,
        removes_ttl: bool,
        /// earlier queued acknowledgement of the same thread still pending when this one was seen complete
        earlier_pending: bool,
        stalled: bool,
    },
    Shutdown,
    HoldRef { key: u8, value: Option<u64> },
    Panicked(String),
    Nothing,
}

#[derive(Clone, Debug, Serialize)]
pub struct Rec {
    pub thread: usize,
    pub index: usize,
    pub start: u64,
    pub end: u64,
    pub outcome: Outcome,
}

#[derive(Clone, Debug, Default, Serialize)]
pub struct History {
    pub recs: Vec<Rec>,
    pub clock_log: Vec<(u64, u64)>,
    pub monitor_samples: u64,
    pub monitor_min: i64,
    pub monitor_max: i64,
    pub shutdown_called: bool,
    pub blocked: Option<String>,
    pub trace: Vec<TraceEvent>,
    pub final_stats: BTreeMap<String, u64>,
    pub buffered_at_end: u64,
    pub applied_records: u64,
    pub site_hits: Vec<u64>,
    pub delays_injected: u64,
    pub background_panics: Vec<String>,
    pub liveness_error: Option<String>,
    pub used_at_end: i64,
    /// clock value (ns) before the final shard rotation; every key whose deadline is earlier must be gone afterwards
    pub rotation_start_ns: u64,
    pub rotated: bool,
    pub lookups: u64,
    pub sched_steps: u64,
    pub sched_threads: u64,
    pub sched_timeout_elections: u64,
}

#[derive(Clone, Debug, Serialize)]
pub enum TraceEvent {
    Executed { ack: usize, kind: String, status: St, begin: u64, end: u64, thread: u64 },
    Drained { ack: usize, stamp: u64 },
    Sent { ack: usize, kind: String, before: u64, after: u64 },
    Swept { id: u64, stamp: u64 },
    Admission { id: u64, weight: i64, space_left: i64 },
    Evicted { incoming: u64, victim: u64 },
}

pub struct ConcRun {
    pub history: History,
    pub snapshot: Option<Snapshot<u64>>,
}

pub fn token_of(key: u8, thread: usize, index: usize) -> u64 { ((key as u64) << 40) | ((thread as u64 + 1) << 32) | (index as u64 + 1) }
pub fn token_key(token: u64) -> u8 { (token >> 40) as u8 }

thread_local! {
    static INJECT_STATE: std::cell::Cell<u64> = std::cell::Cell::new(0);
}

fn make_handler(injection: &Injection, counter: Arc<AtomicU64>, thread_ids: Arc<AtomicU64>) -> verif::Handler {
    let mut table: Vec<Option<(u8, Delay)>> = vec![None; SITES];
    for (site, probability, delay) in &injection.sites {
        table[(*site as usize) % SITES] = Some((*probability, delay.clone()));
    }
    let seed = injection.seed;
    Arc::new(move |site: Site| {
        if let Some((probability, delay)) = &table[site as usize] {
            let roll = INJECT_STATE.with(|state| {
                let mut value = state.get();
                if value == 0 { value = seed ^ (thread_ids.fetch_add(1, Ordering::Relaxed) + 1).wrapping_mul(0x9E3779B97F4A7C15); }
                let roll = splitmix(&mut value);
                state.set(value);
                roll
            });
            if (roll & 0xff) as u8 <= *probability {
                counter.fetch_add(1, Ordering::Relaxed);
                match delay {
                    Delay::Spin(iterations) => { for _ in 0..*iterations { std::hint::spin_loop(); } }
                    Delay::Yield(times) => { for _ in 0..*times { std::thread::yield_now(); } }
                    Delay::SleepUs(micros) => std::thread::sleep(Duration::from_micros(*micros as u64)),
                }
            }
        }
    })
}

struct SchedState {
    parked: BTreeSet<usize>,
    priorities: Vec<i64>,
    current: Option<(usize, Instant)>,
    steps: u64,
    next_low: i64,
    disabled: bool,
    elections_by_timeout: u64,
}

pub struct Sched {
    plan: SchedPlan,
    state: Mutex<SchedState>,
    condvar: std::sync::Condvar,
}

thread_local! {
    static SCHED_INDEX: std::cell::Cell<usize> = std::cell::Cell::new(usize::MAX);
}

const SCHED_TIMEOUT: Duration = Duration::from_micros(400);

impl Sched {
    fn new(plan: &SchedPlan) -> Arc<Sched> {
        Arc::new(Sched { plan: plan.clone(), state: Mutex::new(SchedState { parked: BTreeSet::new(), priorities: Vec::new(), current: None, steps: 0, next_low: -1, disabled: false, elections_by_timeout: 0 }), condvar: std::sync::Condvar::new() })
    }

    fn index(&self, state: &mut SchedState) -> usize {
        let index = SCHED_INDEX.with(|index| index.get());
        if index != usize::MAX && index < state.priorities.len() { return index; }
        let index = state.priorities.len();
        let priority = self.plan.priorities.get(index).copied().unwrap_or((index as u8).wrapping_mul(37)) as i64;
        state.priorities.push(priority * 1000 + index as i64);
        SCHED_INDEX.with(|slot| slot.set(index));
        index
    }

    /// Called at every schedule point by whichever thread reaches it.
    fn reach(&self, site: Site) {
        let mut state = self.state.lock().unwrap();
        if state.disabled { return; }
        let me = self.index(&mut state);
        state.steps += 1;
        if self.plan.change_points.contains(&(state.steps as u16)) { state.priorities[me] = state.next_low; state.next_low -= 1; }
        if matches!(state.current, Some((current, _)) if current == me) { state.current = None; }
        state.parked.insert(me);
        loop {
            if state.disabled { state.parked.remove(&me); break; }
            let free = match state.current { None => true, Some((_, since)) => since.elapsed() > SCHED_TIMEOUT };
            if free {
                let best = state.parked.iter().copied().max_by_key(|thread| state.priorities[*thread]).unwrap_or(me);
                if best == me {
                    if state.current.is_some() { state.elections_by_timeout += 1; }
                    state.parked.remove(&me);
                    state.current = Some((me, Instant::now()));
                    // a background thread that was elected at the head of its loop goes to the back of the queue: the
                    // periodic sweeper (and the worker, the consumer) cannot starve the clients, whatever their priority
                    if matches!(site, Site::SweeperBeforeRetain | Site::ConsumerLoop | Site::WorkerAfterDequeue) { state.priorities[me] = state.next_low; state.next_low -= 1; }
                    self.condvar.notify_all();
                    break;
                }
                self.condvar.notify_all();
            }
            let (next, _) = self.condvar.wait_timeout(state, Duration::from_micros(60)).unwrap();
            state = next;
        }
    }

    /// The calling client thread finished an operation (it is between operations or waits for acknowledgements).
    fn operation_done(&self) {
        let mut state = self.state.lock().unwrap();
        let me = SCHED_INDEX.with(|index| index.get());
        if matches!(state.current, Some((current, _)) if current == me) { state.current = None; self.condvar.notify_all(); }
    }

    fn disable(&self) -> (u64, usize, u64) {
        let mut state = self.state.lock().unwrap();
        state.disabled = true;
        self.condvar.notify_all();
        (state.steps, state.priorities.len(), state.elections_by_timeout)
    }
}

struct Shared {
    sched: Option<Arc<Sched>>,
    clock_log: Mutex<Vec<(u64, u64)>>,
    cache: CacheD<u64, u64>,
    inst: Arc<Instance>,
    clock: HClock,
    cfg: Cfg,
    recs: Mutex<Vec<Rec>>,
    /// acknowledgements are kept alive until the case ends: the trace identifies commands by their address
    keep: Mutex<Vec<Arc<CommandAcknowledgement>>>,
    progress: AtomicU64,
    /// per harness thread: 0 = between operations / finished, 1 = inside an API call, 2 = waiting for acknowledgements
    states: Vec<std::sync::atomic::AtomicU8>,
    shutdown_called: AtomicBool,
    shutdown_started: AtomicBool,
    stop_aux: AtomicBool,
}

fn resolve_ttl(sel: &TtlSel) -> Duration {
    match sel {
        TtlSel::Zero => Duration::ZERO,
        TtlSel::Nanos(n) => Duration::from_nanos(*n as u64),
        TtlSel::Millis(n) => Duration::from_millis(*n as u64),
        TtlSel::Secs(n) => Duration::from_secs(*n as u64),
        TtlSel::SecsNanos(s, n) => Duration::new(*s as u64, *n % 1_000_000_000),
        TtlSel::Days(n) => Duration::from_secs(*n as u64 * 86_400),
        TtlSel::Years(n) => Duration::from_secs(*n as u64 * 365 * 86_400),
        _ => Duration::from_secs(3600),
    }
}

struct Unawaited {
    queued: bool,
    rec_index: usize,
    ack: Arc<CommandAcknowledgement>,
}

fn worker_thread(shared: Arc<Shared>, thread: usize, ops: Vec<COp>, barrier: Arc<Barrier>, tids: Arc<Mutex<Vec<(usize, i32)>>>) {
    mark_harness_thread();
    verif::install(Some(shared.inst.clone()));
    tids.lock().unwrap().push((thread, unsafe { libc::syscall(libc::SYS_gettid) } as i32));
    barrier.wait();
    let inst = shared.inst.clone();
    let mut local: Vec<Rec> = Vec::new();
    let mut unawaited: Vec<Unawaited> = Vec::new();
    let mut keep: Vec<Arc<CommandAcknowledgement>> = Vec::new();
    let state = &shared.states[thread];
    let await_all = |local: &mut Vec<Rec>, unawaited: &mut Vec<Unawaited>| {
        state.store(2, Ordering::SeqCst);
        // C11: await the most recent queued acknowledgement first; every earlier one must then be complete already
        let pending: Vec<Unawaited> = std::mem::take(unawaited);
        if pending.is_empty() { return; }
        // (acknowledgements that were complete when the call returned were answered on the spot or are complete anyway)
        let last_position = pending.iter().rposition(|item| item.queued).unwrap_or(pending.len() - 1);
        let last = &pending[last_position];
        let last_result = await_ack(&last.ack, &inst);
        let seen = inst.next_stamp();
        let waker = noop_waker();
        for (position, item) in pending.iter().enumerate() {
            let (status, stalled, earlier_pending_flag) = if position == last_position {
                match &last_result { Ok(status) => (Some(St::from(*status)), false, false), Err(_) => (None, true, false) }
            } else {
                match poll_once(&item.ack, &waker) {
                    Some(status) => (Some(St::from(status)), false, false),
                    None => {
                        // not complete although a later one is: record, then wait for it so that the history is complete
                        if last_result.is_ok() {
                            match await_ack(&item.ack, &inst) { Ok(status) => (Some(St::from(status)), false, position < last_position), Err(_) => (None, true, position < last_position) }
                        } else { (None, true, false) }
                    }
                }
            };
            if let Outcome::Write { status: slot, seen_done, earlier_pending, stalled: stalled_slot, .. } = &mut local[item.rec_index].outcome {
                *slot = status;
                *seen_done = seen;
                *earlier_pending = earlier_pending_flag;
                *stalled_slot = stalled;
            }
        }
        state.store(0, Ordering::SeqCst);
    };
    for (index, op) in ops.iter().enumerate() {
        if let COp::Read { kind, keys } = op {
            if matches!(kind, ReadKind::MultiGetIter | ReadKind::MultiGetMapIter) && keys.len() >= 2 {
                // consumed step by step: every next() is recorded as a read of its own (a value handed out by a later next()
                // must be current when that next() is called), with a short pause between the steps
                let keys64: Vec<u64> = keys.iter().map(|k| *k as u64).collect();
                let cache = &shared.cache;
                state.store(1, Ordering::SeqCst);
                let result = catch_unwind(AssertUnwindSafe(|| {
                    let mut recs = Vec::new();
                    let refs: Vec<&u64> = keys64.iter().collect();
                    let mut plain = if *kind == ReadKind::MultiGetIter { Some(cache.multi_get_iterator(refs.clone())) } else { None };
                    let mut mapped = if *kind == ReadKind::MultiGetMapIter { Some(cache.multi_get_map_iterator(refs, |value| value)) } else { None };
                    for k in keys.iter() {
                        let start = inst.next_stamp();
                        let value = match (&mut plain, &mut mapped) { (Some(iterator), _) => iterator.next(), (_, Some(iterator)) => iterator.next(), _ => None };
                        let end = inst.next_stamp();
                        match value { Some(value) => recs.push((start, end, *k, value)), None => break }
                        for _ in 0..3 { std::thread::yield_now(); }
                    }
                    recs
                }));
                state.store(0, Ordering::SeqCst);
                if let Some(sched) = &shared.sched { sched.operation_done(); }
                match result {
                    Ok(recs) => for (start, end, k, value) in recs { local.push(Rec { thread, index, start, end, outcome: Outcome::Read { keys: vec![k], values: vec![value] } }); },
                    Err(_) => local.push(Rec { thread, index, start: inst.next_stamp(), end: inst.next_stamp(), outcome: Outcome::Panicked(inst.panics().last().cloned().unwrap_or_default()) }),
                }
                shared.progress.fetch_add(1, Ordering::AcqRel);
                continue;
            }
        }
        let start = inst.next_stamp();
        state.store(1, Ordering::SeqCst);
        let cache = &shared.cache;
        let mut new_write: Option<(Arc<CommandAcknowledgement>, bool)> = None;
        let outcome = catch_unwind(AssertUnwindSafe(|| -> Outcome {
            match op {
                COp::Put { k, extra, explicit, ttl, wait } => {
                    let key = *k as u64;
                    let token = token_of(*k, thread, index);
                    let weight = base_weight(*k) + *extra as i64;
                    let ttl = ttl.as_ref().map(resolve_ttl);
                    let result = match (*explicit, ttl) {
                        (true, None) => cache.put_with_weight(key, token, weight),
                        (true, Some(ttl)) => cache.put_with_weight_and_ttl(key, token, weight, ttl),
                        (false, None) => cache.put(key, token),
                        (false, Some(ttl)) => cache.put_with_ttl(key, token, ttl),
                    };
                    write_outcome(result, *k, Some(token), "put", None, ttl, false, *wait, &mut new_write)
                }
                COp::Upsert { k, down, ttl, wait } => {
                    let key = *k as u64;
                    let token = token_of(*k, thread, index);
                    // one fixed weight per key, below every put weight of that key: an upsert can lower the charged weight or keep it, never raise it (F5)
                    let _ = down;
                    let weight = base_weight(*k) - 4;
                    let mut builder = PutOrUpdateRequestBuilder::new(key).value(token).weight(weight);
                    let mut ttl_value = None;
                    match ttl {
                        TtlReq::Set(sel) => { let ttl = resolve_ttl(sel); ttl_value = Some(ttl); builder = builder.time_to_live(ttl); }
                        TtlReq::Remove => builder = builder.remove_time_to_live(),
                        TtlReq::Keep => {}
                    }
                    let _ = verif::take_last_upsert_in_place();
                    let result = cache.put_or_update(builder.build());
                    let in_place = verif::take_last_upsert_in_place();
                    write_outcome(result, *k, Some(token), "upsert", in_place, ttl_value, matches!(ttl, TtlReq::Remove), *wait, &mut new_write)
                }
                COp::Delete { k, wait } => {
                    let result = cache.delete(*k as u64);
                    write_outcome(result, *k, None, "delete", None, None, false, *wait, &mut new_write)
                }
                COp::Read { kind, keys } => {
                    // multi_get returns a map: with duplicate keys the number of hits cannot be recovered from it (SEQ covers duplicates)
                    let mut keys = keys.clone();
                    if *kind == ReadKind::MultiGet { let mut seen = BTreeSet::new(); keys.retain(|k| seen.insert(*k)); }
                    let keys = &keys;
                    let keys64: Vec<u64> = keys.iter().map(|k| *k as u64).collect();
                    let values: Vec<Option<u64>> = match kind {
                        ReadKind::Get => vec![cache.get(&keys64[0])],
                        ReadKind::GetRef => vec![cache.get_ref(&keys64[0]).map(|reference| reference.value().value())],
                        ReadKind::MapGet => vec![cache.map_get(&keys64[0], |value| value)],
                        ReadKind::MapGetRef => vec![cache.map_get_ref(&keys64[0], |stored| stored.value())],
                        ReadKind::MultiGet => {
                            let map = cache.multi_get(keys64.iter().collect());
                            keys64.iter().map(|key| map.get(key).copied().flatten()).collect()
                        }
                        ReadKind::MultiGetIter => cache.multi_get_iterator(keys64.iter().collect()).collect(),
                        ReadKind::MultiGetMapIter => cache.multi_get_map_iterator(keys64.iter().collect(), |value| value).collect(),
                    };
                    let keys = match kind { ReadKind::Get | ReadKind::GetRef | ReadKind::MapGet | ReadKind::MapGetRef => vec![keys[0]], _ => keys.clone() };
                    Outcome::Read { keys, values }
                }
                COp::HoldRef { k, micros } => {
                    let key = *k as u64;
                    let guard = cache.get_ref(&key);
                    let value = guard.as_ref().map(|reference| reference.value().value());
                    let until = Instant::now() + Duration::from_micros(*micros as u64);
                    while Instant::now() < until { std::hint::spin_loop(); }
                    drop(guard);
                    Outcome::HoldRef { key: *k, value }
                }
                COp::Shutdown => {
                    shared.shutdown_started.store(true, Ordering::SeqCst);
                    cache.shutdown();
                    shared.shutdown_called.store(true, Ordering::SeqCst);
                    Outcome::Shutdown
                }
                COp::Forget { k } => {
                    let token = token_of(*k, thread, index);
                    // the acknowledgement is dropped at once, never polled: only its id is kept
                    let id = cache.put_with_weight(*k as u64, token, base_weight(*k)).ok().map(|ack| ack.verif_id() as usize);
                    let err = id.is_none();
                    Outcome::Write { key: *k, token: Some(token), kind: "forgotten-put", err, ack: id.unwrap_or(0), immediate: None, status: None, seen_done: 0, in_place: None, ttl_ns: None, removes_ttl: false, earlier_pending: false, stalled: false }
                }
                COp::AwaitAll => Outcome::Nothing,
                COp::Advance { ms } => {
                    let now = shared.clock.get() + *ms as u64 * 1_000_000;
                    shared.clock.set(now);
                    shared.clock_log.lock().unwrap().push((inst.next_stamp(), now));
                    Outcome::Nothing
                }
                COp::Pause(times) => { for _ in 0..*times { std::thread::yield_now(); } Outcome::Nothing }
            }
        }));
        state.store(0, Ordering::SeqCst);
        if let Some(sched) = &shared.sched { sched.operation_done(); }
        let end = inst.next_stamp();
        let outcome = match outcome {
            Ok(outcome) => outcome,
            Err(_) => Outcome::Panicked(inst.panics().last().cloned().unwrap_or_default()),
        };
        local.push(Rec { thread, index, start, end, outcome });
        if let Some((ack, wait)) = new_write {
            keep.push(ack.clone());
            let queued = matches!(&local.last().unwrap().outcome, Outcome::Write { immediate: None, .. });
            unawaited.push(Unawaited { queued, rec_index: local.len() - 1, ack });
            if wait { await_all(&mut local, &mut unawaited); }
        }
        if matches!(op, COp::AwaitAll) { await_all(&mut local, &mut unawaited); }
        shared.progress.fetch_add(1, Ordering::AcqRel);
    }
    await_all(&mut local, &mut unawaited);
    shared.progress.fetch_add(1, Ordering::AcqRel);
    shared.recs.lock().unwrap().extend(local);
    shared.keep.lock().unwrap().extend(keep);
    verif::install(None);
}

#[allow(clippy::too_many_arguments)]
fn write_outcome(result: tinylfu_cached::cache::command::command_executor::CommandSendResult, key: u8, token: Option<u64>, kind: &'static str, in_place: Option<bool>, ttl: Option<Duration>, removes_ttl: bool, wait: bool, new_write: &mut Option<(Arc<CommandAcknowledgement>, bool)>) -> Outcome {
    match result {
        Err(_) => Outcome::Write { key, token, kind, err: true, ack: 0, immediate: None, status: None, seen_done: 0, in_place, ttl_ns: ttl.map(|ttl| ttl.as_nanos()), removes_ttl, earlier_pending: false, stalled: false },
        Ok(ack) => {
            let immediate = poll_once(&ack, &noop_waker()).map(St::from);
            let pointer = ack.verif_id() as usize;
            *new_write = Some((ack, wait));
            Outcome::Write { key, token, kind, err: false, ack: pointer, immediate, status: None, seen_done: 0, in_place, ttl_ns: ttl.map(|ttl| ttl.as_nanos()), removes_ttl, earlier_pending: false, stalled: false }
        }
    }
}

fn thread_cpu_ticks(tid: i32) -> u64 {
    std::fs::read_to_string(format!("/proc/self/task/{}/stat", tid)).ok().and_then(|text| {
        let rest = text.rsplit(')').next()?.to_string();
        let fields: Vec<&str> = rest.split_whitespace().collect();
        Some(fields.get(11)?.parse::<u64>().ok()? + fields.get(12)?.parse::<u64>().ok()?)
    }).unwrap_or(0)
}

/// Executes one concurrent case. `stall_window` is the no-progress period after which the case is declared blocked.
pub fn run_conc_case(case: &ConcCase, stall_window: Duration) -> ConcRun {
    let inst = Instance::new();
    inst.enable_trace(true);
    let clock = HClock::new(BASE_SECS * 1_000_000_000 + case.cfg.start_ns);
    let cache = crate::seq::build_cache(&case.cfg, &clock, &inst);
    verif::install(None);
    let delays = Arc::new(AtomicU64::new(0));
    if !case.injection.sites.is_empty() && case.sched.is_none() {
        inst.set_handler(Some(make_handler(&case.injection, delays.clone(), Arc::new(AtomicU64::new(0)))));
    }
    if case.consumer != ConsumerMode::Free { inst.consumer_gate.close(); }
    let sched = case.sched.as_ref().map(Sched::new);
    if let Some(sched) = &sched { let sched = sched.clone(); inst.set_handler(Some(Arc::new(move |site: Site| sched.reach(site)))); }
    let shared = Arc::new(Shared { sched: sched.clone(), clock_log: Mutex::new(Vec::new()), cache, inst: inst.clone(), clock: clock.clone(), cfg: case.cfg.clone(), recs: Mutex::new(Vec::new()), keep: Mutex::new(Vec::new()), progress: AtomicU64::new(0), states: (0..case.threads.len()).map(|_| std::sync::atomic::AtomicU8::new(0)).collect(), shutdown_called: AtomicBool::new(false), shutdown_started: AtomicBool::new(false), stop_aux: AtomicBool::new(false) });
    let barrier = Arc::new(Barrier::new(case.threads.len() + 1));
    let tids = Arc::new(Mutex::new(Vec::new()));
    let (done_sender, done_receiver) = std::sync::mpsc::channel::<usize>();
    for (thread, ops) in case.threads.iter().enumerate() {
        let shared = shared.clone();
        let ops = ops.clone();
        let barrier = barrier.clone();
        let tids = tids.clone();
        let done_sender = done_sender.clone();
        std::thread::spawn(move || {
            worker_thread(shared, thread, ops, barrier, tids);
            let _ = done_sender.send(thread);
        });
    }
    // monitor: samples total_weight_used() for the whole run (C01)
    let monitor_result = Arc::new(Mutex::new((0u64, i64::MAX, i64::MIN)));
    let monitor_handle = if case.monitor {
        let shared = shared.clone();
        let result = monitor_result.clone();
        Some(std::thread::spawn(move || {
            let (mut samples, mut min, mut max) = (0u64, i64::MAX, i64::MIN);
            while !shared.stop_aux.load(Ordering::Acquire) {
                let used = shared.cache.total_weight_used();
                // C01 speaks about the running cache: samples taken once a shutdown has begun are not judged
                if shared.shutdown_started.load(Ordering::SeqCst) { std::thread::yield_now(); continue; }
                samples += 1;
                min = min.min(used);
                max = max.max(used);
                if samples % 64 == 0 { std::thread::yield_now(); }
            }
            *result.lock().unwrap() = (samples, min, max);
        }))
    } else { None };
    // clock driver
    let clock_handle = if !case.clock.is_empty() {
        let shared = shared.clone();
        let steps = case.clock.clone();
        Some(std::thread::spawn(move || {
            for step in steps {
                if shared.stop_aux.load(Ordering::Acquire) { break; }
                std::thread::sleep(Duration::from_micros(step.pause_us as u64));
                let now = shared.clock.get() + step.advance_ms as u64 * 1_000_000;
                let before = shared.inst.next_stamp();
                shared.clock.set(now);
                let _ = before;
                shared.clock_log.lock().unwrap().push((shared.inst.next_stamp(), now));
            }
        }))
    } else { None };
    barrier.wait();
    // watchdog
    let mut history = History::default();
    let mut finished = 0;
    let mut last_progress = shared.progress.load(Ordering::Acquire);
    let mut last_change = Instant::now();
    let mut cpu_mark: Option<(Instant, u64)> = None;
    let released_consumer = AtomicBool::new(false);
    while finished < case.threads.len() {
        match done_receiver.recv_timeout(Duration::from_millis(50)) {
            Ok(_) => { finished += 1; last_change = Instant::now(); }
            Err(_) => {
                let progress = shared.progress.load(Ordering::Acquire);
                if progress != last_progress { last_progress = progress; last_change = Instant::now(); cpu_mark = None; }
                if case.consumer == ConsumerMode::StalledThenReleased && !released_consumer.load(Ordering::Relaxed) && last_change.elapsed() > Duration::from_millis(5) {
                    // nothing to do: readers never wait for the consumer; released after the read phase below
                }
                let idle = last_change.elapsed();
                // threads inside an API call (not those that merely wait for an acknowledgement: that wait is the harness's own polling)
                let in_call: Vec<usize> = (0..case.threads.len()).filter(|thread| shared.states[*thread].load(Ordering::SeqCst) == 1).collect();
                let ticks_of = |threads: &Vec<usize>| -> u64 { tids.lock().unwrap().iter().filter(|(thread, _)| threads.contains(thread)).map(|(_, tid)| thread_cpu_ticks(*tid)).sum() };
                if idle > stall_window / 2 && cpu_mark.is_none() { cpu_mark = Some((Instant::now(), ticks_of(&in_call))); }
                if idle > stall_window {
                    let ticks = ticks_of(&in_call);
                    let (_, before) = cpu_mark.unwrap_or((Instant::now(), ticks));
                    let hits: Vec<(usize, u64)> = inst.site_hits.iter().enumerate().map(|(index, hits)| (index, hits.load(Ordering::Relaxed))).filter(|(_, hits)| *hits > 0).collect();
                    let waiting: Vec<usize> = (0..case.threads.len()).filter(|thread| shared.states[*thread].load(Ordering::SeqCst) == 2).collect();
                    if in_call.is_empty() {
                        history.blocked = Some(format!("no call returned and no acknowledgement completed for {:?}: threads {:?} wait for acknowledgements that never complete (the command worker is blocked or gone). Site hits so far: {:?}", stall_window, waiting, hits));
                    } else if ticks.saturating_sub(before) <= 3 {
                        history.blocked = Some(format!("no call returned and no acknowledgement completed for {:?}; threads {:?} are inside an API call that does not return and consumed no CPU ({} -> {} ticks): parked, not slow; threads {:?} wait for acknowledgements. Site hits so far: {:?}", stall_window, in_call, before, ticks, waiting, hits));
                    } else {
                        history.blocked = Some(format!("INCONCLUSIVE: no progress for {:?} but the threads inside API calls consumed CPU ({} -> {} ticks)", stall_window, before, ticks));
                    }
                    break;
                }
            }
        }
    }
    shared.stop_aux.store(true, Ordering::Release);
    if let Some(sched) = &sched {
        let (steps, threads, timeouts) = sched.disable();
        history.sched_steps = steps;
        history.sched_threads = threads as u64;
        history.sched_timeout_elections = timeouts;
    }
    if history.blocked.is_some() {
        // threads are stuck: leak everything and report
        inst.set_handler(None);
        history.recs = shared.recs.lock().unwrap().clone();
        history.shutdown_called = shared.shutdown_called.load(Ordering::SeqCst);
        history.background_panics = inst.panics().into_iter().filter(|message| message.starts_with("background")).collect();
        return ConcRun { history, snapshot: None };
    }
    if let Some(handle) = monitor_handle { let _ = handle.join(); }
    if let Some(handle) = clock_handle { let _ = handle.join(); }
    inst.set_handler(None);
    history.delays_injected = delays.load(Ordering::Relaxed);
    history.site_hits = inst.site_hits.iter().map(|hits| hits.load(Ordering::Relaxed)).collect();
    let (samples, min, max) = *monitor_result.lock().unwrap();
    history.monitor_samples = samples;
    history.monitor_min = min;
    history.monitor_max = max;
    history.clock_log = shared.clock_log.lock().unwrap().clone();
    history.shutdown_called = shared.shutdown_called.load(Ordering::SeqCst);
    let mut recs = shared.recs.lock().unwrap().clone();
    recs.sort_by_key(|rec| rec.start);
    history.recs = recs;
    // quiescence: everything acknowledged (threads awaited their own), clock frozen; wait for one complete sweep and for the consumer
    let mut snapshot = None;
    if !history.shutdown_called {
        if case.consumer == ConsumerMode::StalledThenReleased { inst.consumer_gate.open(); }
        let started = inst.sweeps_started.load(Ordering::Acquire);
        let swept = wait_for(&inst, || if inst.sweeps_completed.load(Ordering::Acquire) >= started + 2 { Some(()) } else { None });
        if swept.is_err() && !inst.has_panicked() { history.liveness_error = Some("the sweeper completed no sweep within the watchdog period".to_string()); }
        if case.consumer != ConsumerMode::Stalled {
            let cache = &shared.cache;
            let applied = wait_for(&inst, || if inst.access_records_applied.load(Ordering::Acquire) == cache.stats_summary().get(&StatsType::AccessAdded).unwrap_or(0) { Some(()) } else { None });
            if applied.is_err() && !inst.has_panicked() {
                // second look before the consumer is declared dead (observed once in ~10^5 thorough executions, on a machine
                // running three heavy jobs, not reproducible in 150 re-executions: nothing handed over had been applied,
                // although worker and sweeper answered promptly): one more period
                let again = wait_for(&inst, || if inst.access_records_applied.load(Ordering::Acquire) == cache.stats_summary().get(&StatsType::AccessAdded).unwrap_or(0) { Some(()) } else { None });
                if again.is_err() && !inst.has_panicked() { history.liveness_error = Some("the access consumer did not apply the handed-over batches within two watchdog periods".to_string()); }
            }
        }
        // C10 bounded liveness: one complete sweep at every shard residue; afterwards nothing that had expired before may remain
        if !case.clock.is_empty() || history.recs.iter().any(|rec| matches!(&rec.outcome, Outcome::Write { ttl_ns: Some(_), .. })) {
            history.rotation_start_ns = clock.get();
            let mut ok = true;
            for _ in 0..case.cfg.shards {
                clock.set(clock.get() + 1_000_000_000);
                let started = inst.sweeps_started.load(Ordering::Acquire);
                if wait_for(&inst, || if inst.sweeps_completed.load(Ordering::Acquire) >= started + 2 { Some(()) } else { None }).is_err() { ok = false; break; }
            }
            history.rotated = ok;
        }
        // worker alive: a delete of an unused key completes
        match shared.cache.delete(251) {
            Ok(ack) => { if await_ack(&ack, &inst).is_err() && !inst.has_panicked() { history.liveness_error = Some("the command worker did not complete a delete within the watchdog period".to_string()); } }
            Err(_) => history.liveness_error = Some("delete returned Err although shutdown was never called".to_string()),
        }
        let summary = shared.cache.stats_summary();
        for (name, stats_type) in [("hits", StatsType::CacheHits), ("misses", StatsType::CacheMisses), ("keys_added", StatsType::KeysAdded), ("keys_deleted", StatsType::KeysDeleted), ("keys_rejected", StatsType::KeysRejected), ("weight_added", StatsType::WeightAdded), ("weight_removed", StatsType::WeightRemoved), ("access_added", StatsType::AccessAdded), ("access_dropped", StatsType::AccessDropped)] {
            history.final_stats.insert(name.to_string(), summary.get(&stats_type).unwrap_or(0));
        }
        history.buffered_at_end = shared.cache.verif_buffered_accesses() as u64;
        history.applied_records = inst.access_records_applied.load(Ordering::Acquire);
        history.used_at_end = shared.cache.total_weight_used();
        snapshot = Some(shared.cache.verif_snapshot());
    }
    history.background_panics = inst.panics().into_iter().filter(|message| message.starts_with("background")).collect();
    for event in inst.take_trace() {
        match event {
            Event::Executed { ack, kind, status, begin, end, thread } => history.trace.push(TraceEvent::Executed { ack, kind, status: St::from(status), begin, end, thread }),
            Event::Drained { ack, stamp } => history.trace.push(TraceEvent::Drained { ack, stamp }),
            Event::Sent { ack, kind, before, after } => history.trace.push(TraceEvent::Sent { ack, kind, before, after }),
            Event::Swept { id, stamp } => history.trace.push(TraceEvent::Swept { id, stamp }),
            Event::AdmissionBegin { id, weight, space_left, .. } => history.trace.push(TraceEvent::Admission { id, weight, space_left }),
            Event::AdmissionStep { id, victim: Some(victim), evicted: true, .. } => history.trace.push(TraceEvent::Evicted { incoming: id, victim: victim.id }),
            _ => {}
        }
    }
    inst.consumer_gate.open();
    shared.cache.shutdown();
    ConcRun { history, snapshot }
}

/// Directed witness of finding F10: two TTL upserts of one key overlap; the first is delayed between its store update
/// and its expiry-index update (schedule point), the second runs completely in between. The index then holds the second
/// deadline and, stale, the earlier first one; when the clock passes the first deadline the key is swept although its
/// current deadline lies in the future.
pub fn f10_witness() -> Option<Failure> {
    thread_local! { static SLOW: std::cell::Cell<bool> = std::cell::Cell::new(false); }
    let cfg = Cfg { counters: 100, capacity: 16, max_weight: 4000, shards: 2, cmd_buf: 8, pool: 1, buf: 4, tick_us: 500, hash: HashMode::Identity, weight_mode: WeightMode::Table(vec![8]), start_ns: 0, noise_readers: 0, prelude: None };
    let inst = Instance::new();
    let start = BASE_SECS * 1_000_000_000;
    let clock = HClock::new(start);
    let cache = Arc::new(crate::seq::build_cache(&cfg, &clock, &inst));
    verif::install(None);
    inst.set_handler(Some(Arc::new(|site: Site| { if site == Site::UpsertAfterStoreUpdate && SLOW.with(|slow| slow.get()) { std::thread::sleep(Duration::from_millis(40)); } })));
    let key = 1u64;
    let ack = cache.put_with_weight(key, 100, 8).ok()?;
    await_ack(&ack, &inst).ok()?;
    let slow_cache = cache.clone();
    let slow_inst = inst.clone();
    let slow = std::thread::spawn(move || {
        SLOW.with(|slow| slow.set(true));
        let ack = slow_cache.put_or_update(PutOrUpdateRequestBuilder::new(key).value(101).weight(8).time_to_live(Duration::from_secs(1)).build()).unwrap();
        let _ = await_ack(&ack, &slow_inst);
    });
    std::thread::sleep(Duration::from_millis(15));
    let ack = cache.put_or_update(PutOrUpdateRequestBuilder::new(key).value(102).weight(8).time_to_live(Duration::from_secs(4)).build()).ok()?;
    await_ack(&ack, &inst).ok()?;
    let _ = slow.join();
    inst.set_handler(None);
    let deadline = cache.get_ref(&key).and_then(|reference| reference.value().expire_after());
    let mut failure = None;
    // the clock moves to 3 s: past the first (overwritten) deadline, before the current one, and in the expiry shard of the first deadline
    clock.set(start + 3_000_000_000);
    let started = inst.sweeps_started.load(Ordering::Acquire);
    let _ = wait_for(&inst, || if inst.sweeps_completed.load(Ordering::Acquire) >= started + 2 { Some(()) } else { None });
    clock.set(start + 3_000_000_001);
    let value = cache.get(&key);
    if deadline == Some(std::time::UNIX_EPOCH + Duration::from_nanos(start + 4_000_000_000)) && value.is_none() {
        failure = Some(Failure::new("C10", "C10/conc/index-race", format!("two overlapping put_or_update calls set the time-to-live of key {} to 1 s and then 4 s (deadline shown by get_ref: {:?}); with the clock at 3 s a sweep removed the key: get() = None although its deadline lies 1 s in the future", key, deadline)).with_also(vec!["C09".to_string()]));
    }
    cache.shutdown();
    failure
}

/// Directed scenario (finding F11, fixed): the sweeper is delayed between removing the weight entry of an expired key id
/// and removing the store entry (schedule point `CacheWeightDeleteAfterRemove`). Meanwhile a client removes the key's TTL
/// in place (so the worker's delete does not wait for the sweeper's shard lock), deletes the key and puts it again. The
/// sweeper's removal of the *old* incarnation must not remove the new one. Returns a failure if the new incarnation is lost.
pub fn sweep_vs_reput_scenario(delay_ms: u64) -> Option<Failure> {
    let cfg = Cfg { counters: 100, capacity: 16, max_weight: 4000, shards: 2, cmd_buf: 8, pool: 1, buf: 4, tick_us: 300, hash: HashMode::Identity, weight_mode: WeightMode::Table(vec![8]), start_ns: 0, noise_readers: 0, prelude: None };
    let inst = Instance::new();
    let start = BASE_SECS * 1_000_000_000;
    let clock = HClock::new(start);
    let cache = Arc::new(crate::seq::build_cache(&cfg, &clock, &inst));
    verif::install(None);
    inst.set_handler(Some(Arc::new(move |site: Site| { if site == Site::CacheWeightDeleteAfterRemove { std::thread::sleep(Duration::from_millis(delay_ms)); } })));
    let key = 1u64;
    let ack = cache.put_with_weight_and_ttl(key, 100, 8, Duration::from_secs(1)).ok()?;
    await_ack(&ack, &inst).ok()?;
    // expire it: the sweeper (shard of second 1) removes the weight entry, then is delayed before touching the store
    clock.set(start + 1_500_000_000);
    let hit = |inst: &Instance| inst.site_hits[Site::CacheWeightDeleteAfterRemove as usize].load(Ordering::Relaxed);
    wait_for(&inst, || if hit(&inst) >= 1 { Some(()) } else { None }).ok()?;
    // a client removes the TTL in place: the store entry changes at once, its index update waits for the sweeper
    let upsert_cache = cache.clone();
    let upsert_inst = inst.clone();
    let upserter = std::thread::spawn(move || {
        if let Ok(ack) = upsert_cache.put_or_update(PutOrUpdateRequestBuilder::new(key).value(101).weight(8).remove_time_to_live().build()) { let _ = await_ack(&ack, &upsert_inst); }
    });
    let peeked = wait_for(&inst, || match cache.verif_peek(&key) { Some((_, None, _)) => Some(true), None => Some(false), _ => None }).ok()?;
    let mut failure = None;
    if peeked {
        let ack = cache.delete(key).ok()?;
        let deleted = await_ack(&ack, &inst).ok().map(St::from);
        let ack = cache.put_with_weight(key, 102, 8).ok()?;
        let put = await_ack(&ack, &inst).ok().map(St::from);
        let _ = upserter.join();
        // let the delayed sweep finish, then one more complete sweep
        let started = inst.sweeps_started.load(Ordering::Acquire);
        let _ = wait_for(&inst, || if inst.sweeps_completed.load(Ordering::Acquire) >= started + 2 { Some(()) } else { None });
        inst.set_handler(None);
        let value = cache.get(&key);
        let used = cache.total_weight_used();
        if deleted == Some(St::Accepted) && put == Some(St::Accepted) && (value != Some(102) || used != 8) {
            failure = Some(Failure::new("C10", "C10/conc/sweep-removes-new-incarnation", format!("key {} expired; while the sweeper was between releasing its weight and removing its store entry the key was deleted (acknowledged {:?}) and put again without a time-to-live (acknowledged {:?}); afterwards get() = {:x?} (expected Some(0x66)) and total_weight_used() = {} (expected 8): the sweep of the old incarnation removed the new one", key, deleted, put, value, used)).with_also(vec!["C03".to_string(), "C05".to_string()]));
        }
    } else {
        let _ = upserter.join();
        inst.set_handler(None);
    }
    cache.shutdown();
    failure
}

/// Directed scenario of finding F12: a key universe that fits the cache exactly enough (4 + 11 + 14 + 17 = 46 of 50). The
/// TTL key (17) expires; the sweeper takes its id out of the weight map and is delayed `delay_ms` before it subtracts the
/// weight from the total. Meanwhile a client removes the key's TTL in place, deletes the key (accepted: the store entry is
/// still there) and puts it again with the same weight. Everything fits, so nothing may be evicted and the put must be accepted.
pub fn phantom_weight_scenario(delay_ms: u64) -> Option<Failure> {
    let cfg = Cfg { counters: 100, capacity: 16, max_weight: 50, shards: 2, cmd_buf: 8, pool: 1, buf: 4, tick_us: 300, hash: HashMode::Identity, weight_mode: WeightMode::Table(vec![8]), start_ns: 0, noise_readers: 0, prelude: None };
    let inst = Instance::new();
    let start = BASE_SECS * 1_000_000_000;
    let clock = HClock::new(start);
    let cache = Arc::new(crate::seq::build_cache(&cfg, &clock, &inst));
    verif::install(None);
    let first = Arc::new(std::sync::atomic::AtomicBool::new(true));
    let first_in_handler = first.clone();
    inst.set_handler(Some(Arc::new(move |site: Site| { if site == Site::CacheWeightDeleteAfterRemove && first_in_handler.swap(false, Ordering::SeqCst) { std::thread::sleep(Duration::from_millis(delay_ms)); } })));
    for (key, weight) in [(1u64, 4i64), (2, 11), (3, 14)] {
        let ack = cache.put_with_weight(key, 100 + key, weight).ok()?;
        if await_ack(&ack, &inst).ok().map(St::from) != Some(St::Accepted) { cache.shutdown(); return None; }
    }
    let ack = cache.put_with_weight_and_ttl(4, 104, 17, Duration::from_secs(1)).ok()?;
    if await_ack(&ack, &inst).ok().map(St::from) != Some(St::Accepted) { cache.shutdown(); return None; }
    clock.set(start + 1_500_000_000);
    let hit = |inst: &Instance| inst.site_hits[Site::CacheWeightDeleteAfterRemove as usize].load(Ordering::Relaxed);
    wait_for(&inst, || if hit(&inst) >= 1 { Some(()) } else { None }).ok()?;
    // a client removes the TTL in place: the store entry changes at once (its index update waits for the sweeper), so
    // the delete that follows does not have to wait for the expiry shard the sweeper holds
    let upsert_cache = cache.clone();
    let upsert_inst = inst.clone();
    let upserter = std::thread::spawn(move || {
        if let Ok(ack) = upsert_cache.put_or_update(PutOrUpdateRequestBuilder::new(4u64).weight(17).remove_time_to_live().build()) { let _ = await_ack(&ack, &upsert_inst); }
    });
    let peeked = wait_for(&inst, || match cache.verif_peek(&4) { Some((_, None, _)) => Some(true), None => Some(false), _ => None }).ok()?;
    if !peeked { let _ = upserter.join(); inst.set_handler(None); cache.shutdown(); return None; }
    let ack = cache.delete(4).ok()?;
    let deleted = await_ack(&ack, &inst).ok().map(St::from);
    let ack = cache.put_with_weight(4, 204, 17).ok()?;
    let put = await_ack(&ack, &inst).ok().map(St::from);
    let _ = upserter.join();
    let started = inst.sweeps_started.load(Ordering::Acquire);
    let _ = wait_for(&inst, || if inst.sweeps_completed.load(Ordering::Acquire) >= started + 2 { Some(()) } else { None });
    inst.set_handler(None);
    let held: Vec<Option<u64>> = [1u64, 2, 3].iter().map(|key| cache.get(key)).collect();
    let used = cache.total_weight_used();
    cache.shutdown();
    // only judge the schedule that was aimed at: the delete found the store entry and was accepted
    if deleted != Some(St::Accepted) { return None; }
    if held.iter().any(|value| value.is_none()) || put != Some(St::Accepted) {
        return Some(Failure::new("C03", "C03/conc/evicted-by-phantom-weight", format!("keys 1, 2, 3 (weights 4, 11, 14, no time-to-live) and key 4 (weight 17, TTL 1 s) fit a cache of weight 50; key 4 expired and, while the sweeper was between removing its id from the weight map and subtracting its weight, key 4 had its TTL removed in place, was deleted (acknowledged {:?}) and put again with weight 17 (acknowledged {:?}): reads of keys 1, 2, 3 now give {:?}, total weight {}: the put saw the expired key's weight still counted and evicted live keys (or was refused) although everything fits", deleted, put, held, used)).with_also(vec!["C06".to_string()]));
    }
    None
}

/// Volume scenario for the statistics (C16): `n` keys with a TTL and `n` without are put (unawaited, the last
/// acknowledgement awaited), then the clock jumps past every deadline and at the same moment all plain keys are deleted
/// (unawaited): the sweeper and the command worker remove keys and release weight at the same time, each bumping the same
/// counters. At quiescence, after every shard was swept twice, the cache must be empty and the counters exact.
pub fn stats_stress_scenario(n: u64, shards: usize) -> Option<Failure> {
    use tinylfu_cached::cache::stats::StatsType;
    let cfg = Cfg { counters: 1000, capacity: 1 << 16, max_weight: i64::MAX / 4, shards, cmd_buf: 4096, pool: 1, buf: 64, tick_us: 200, hash: HashMode::Identity, weight_mode: WeightMode::Table(vec![8]), start_ns: 0, noise_readers: 0, prelude: None };
    let inst = Instance::new();
    let start = BASE_SECS * 1_000_000_000;
    let clock = HClock::new(start);
    let cache = Arc::new(crate::seq::build_cache(&cfg, &clock, &inst));
    verif::install(None);
    let mut last = None;
    for key in 0..n {
        last = cache.put_with_weight_and_ttl(key, key, 3 + (key % 5) as i64, Duration::from_millis(200 + (key % (shards as u64 * 1000)))).ok();
        last = cache.put_with_weight(n + key, key, 2 + (key % 7) as i64).ok().or(last);
    }
    let last = last?;
    await_ack(&last, &inst).ok()?;
    let weight_before = cache.total_weight_used();
    // every TTL key expires now; the sweeper collects one shard per second of clock time, the client deletes meanwhile
    let deleter_cache = cache.clone();
    let deleter_inst = inst.clone();
    let deleter = std::thread::spawn(move || {
        let mut last = None;
        for key in 0..n { last = deleter_cache.delete(n + key).ok().or(last); }
        if let Some(ack) = last { let _ = await_ack(&ack, &deleter_inst); }
    });
    for step in 1..=(2 * shards as u64 + 2) {
        clock.set(start + (shards as u64 + 1) * 1_000_000_000 + step * 1_000_000_000);
        let started = inst.sweeps_started.load(Ordering::Acquire);
        let _ = wait_for(&inst, || if inst.sweeps_completed.load(Ordering::Acquire) >= started + 2 { Some(()) } else { None });
    }
    let _ = deleter.join();
    let summary = cache.stats_summary();
    let get = |stats_type: StatsType| summary.get(&stats_type).unwrap_or(0);
    let held = cache.verif_snapshot().store.len() as u64;
    let used = cache.total_weight_used();
    let (added, deleted, weight_added, weight_removed) = (get(StatsType::KeysAdded), get(StatsType::KeysDeleted), get(StatsType::WeightAdded), get(StatsType::WeightRemoved));
    cache.shutdown();
    if added != 2 * n || added.wrapping_sub(deleted) != held || weight_added.wrapping_sub(weight_removed) != used as u64 {
        return Some(Failure::new("C16", "C16/conc/volume", format!("{} TTL keys and {} plain keys were put (weight {} in use), then all of them expired or were deleted at the same time: KeysAdded {} KeysDeleted {} keys held {}; WeightAdded {} WeightRemoved {} weight in use {}: the counters are not exact at quiescence", n, n, weight_before, added, deleted, held, weight_added, weight_removed, used)));
    }
    None
}

include!("conc_check.rs");
