//! VOLUME engine: generated bulk histories (thousands to tens of thousands of keys, up to 1024 expiry shards) in a cache
//! far from full, against a plain map as reference model. No admission pressure on purpose: what is under test is that
//! nothing is lost, left behind, double counted or miscounted when structures get large - shard arithmetic, counters,
//! queues that fill up, sweeps that collect thousands of keys, many keys per map shard.

use std::collections::BTreeMap;
use std::sync::atomic::Ordering;
use std::sync::Arc;
use std::time::Duration;

use proptest::prelude::*;
use serde::{Deserialize, Serialize};
use tinylfu_cached::cache::cached::CacheD;
use tinylfu_cached::cache::put_or_update::PutOrUpdateRequestBuilder;
use tinylfu_cached::cache::stats::StatsType;
use tinylfu_cached::cache::verif::{self, Instance};

use crate::base::*;
use crate::case::{Cfg, HashMode, WeightMode};
use crate::model::Failure;
use crate::runner::CaseResult;

#[derive(Clone, Debug, PartialEq, Eq, Hash, Serialize, Deserialize)]
pub struct VolCase {
    pub keys: u32,
    pub shards: usize,
    pub cmd_buf: usize,
    pub pool: usize,
    pub buf: usize,
    pub capacity: usize,
    pub counters: u64,
    /// TTLs are 1 + (key * ttl_step) % ttl_span seconds
    pub ttl_span: u32,
    pub ttl_step: u32,
    /// every `ttl_every`-th key gets a TTL at the first put (0 = none)
    pub ttl_every: u32,
    pub seed: u64,
    pub default_hash: bool,
    /// client threads that share the work of every bulk phase (each key belongs to one of them)
    #[serde(default = "one")]
    pub clients: u8,
}

fn one() -> u8 { 1 }

pub fn vol_case_strategy(thorough: bool) -> BoxedStrategy<VolCase> {
    let keys = if thorough { prop_oneof![Just(2_000u32), Just(10_000), Just(40_000), Just(100_000)].boxed() } else { prop_oneof![Just(1_500u32), Just(6_000), Just(20_000)].boxed() };
    (keys, prop_oneof![Just(2usize), Just(16), Just(256), Just(1024)], prop_oneof![Just(1usize), Just(64), Just(4096)], prop_oneof![Just(1usize), Just(4), Just(32)], prop_oneof![Just(1usize), Just(64), Just(300), Just(1000)],
        prop_oneof![Just(16usize), Just(1 << 12), Just(1 << 17)], prop_oneof![Just(10u64), Just(4096), Just(1 << 20)], prop_oneof![Just(1u32), Just(7), Just(300), Just(3000)], prop_oneof![Just(1u32), Just(3), Just(257)], 0u32..=3, any::<u64>(), (any::<bool>(), prop_oneof![2 => Just(1u8), 1 => Just(2u8), 2 => Just(4u8)]))
        .prop_map(|(keys, shards, cmd_buf, pool, buf, capacity, counters, ttl_span, ttl_step, ttl_every, seed, (default_hash, clients))| VolCase { keys, shards, cmd_buf, pool, buf, capacity, counters, ttl_span, ttl_step, ttl_every, seed, default_hash, clients }).boxed()
}

#[derive(Clone, Copy, Debug, PartialEq)]
struct Held { value: u64, weight: i64, deadline: Option<u64> }

struct Vol {
    cache: Arc<CacheD<u64, u64>>,
    inst: Arc<Instance>,
    clock: HClock,
    now: u64,
    model: BTreeMap<u64, Held>,
    lookups: u64,
    hits: u64,
    added: u64,
    deleted: u64,
}

type Check<T = ()> = Result<T, Failure>;

impl Vol {
    fn await_last(&self, ack: Option<Arc<tinylfu_cached::cache::command::acknowledgement::CommandAcknowledgement>>, what: &str) -> Check {
        if let Some(ack) = ack {
            match await_ack(&ack, &self.inst) {
                Ok(_) => Ok(()),
                Err(WaitError::Panicked(panics)) => Err(Failure::new("C17", "C17/background-panic", format!("a background thread panicked during {}: {:?}", what, panics))),
                Err(WaitError::Stalled) => Err(Failure::new("STALL", "stall/ack", format!("the last acknowledgement of {} never completed", what))),
            }
        } else { Ok(()) }
    }

    /// Reads every key of `keys` and compares with the model; then the physical state and the counters.
    fn verify(&mut self, universe: u64, phase: &str) -> Check {
        for key in 0..universe {
            let got = self.cache.get(&key);
            self.lookups += 1;
            let expected = self.model.get(&key).filter(|held| held.deadline.map(|deadline| deadline >= self.now).unwrap_or(true)).map(|held| held.value);
            if got.is_some() { self.hits += 1; }
            if got != expected {
                let held = self.model.get(&key);
                let (property, tag) = match (got, expected) {
                    (None, Some(_)) => ("C03", "C03/volume/lost"),
                    (Some(_), None) if held.is_none() => ("C04", "C04/volume/still-readable"),
                    (Some(_), None) => ("C09", "C09/volume/served-after-deadline"),
                    _ => ("C02", "C02/volume/wrong-value"),
                };
                return Err(Failure::new(property, tag, format!("{}: get({}) = {:x?}, expected {:x?} (model entry {:?}, now {} ns)", phase, key, got, expected, held, self.now)).with_also(if property == "C03" && held.map(|held| held.deadline.is_some()).unwrap_or(false) { vec!["C09".to_string(), "C10".to_string()] } else { Vec::new() }));
            }
        }
        let snapshot = self.cache.verif_snapshot();
        let expected_weight: i64 = self.model.values().map(|held| held.weight).sum();
        let used = self.cache.total_weight_used();
        if snapshot.store.len() != self.model.len() {
            return Err(Failure::new("C05", "C05/volume/keys-held", format!("{}: the store holds {} keys, the history leaves {}", phase, snapshot.store.len(), self.model.len())).with_also(vec!["C10".to_string()]));
        }
        if used != expected_weight || snapshot.weights.len() != self.model.len() {
            return Err(Failure::new("C05", "C05/volume/weight", format!("{}: total weight {} with {} charged ids, the held keys weigh {} ({} keys)", phase, used, snapshot.weights.len(), expected_weight, self.model.len())));
        }
        let with_deadline = self.model.values().filter(|held| held.deadline.is_some()).count();
        if snapshot.ttl.len() != with_deadline {
            return Err(Failure::new("C10", "C10/volume/index-size", format!("{}: the expiry index holds {} entries, {} held keys have a deadline", phase, snapshot.ttl.len(), with_deadline)));
        }
        let summary = self.cache.stats_summary();
        let get = |stats_type: StatsType| summary.get(&stats_type).unwrap_or(0);
        if get(StatsType::CacheHits) != self.hits || get(StatsType::CacheHits) + get(StatsType::CacheMisses) != self.lookups {
            return Err(Failure::new("C16", "C16/volume/lookups", format!("{}: hits {} misses {} but {} lookups with {} hits were performed", phase, get(StatsType::CacheHits), get(StatsType::CacheMisses), self.lookups, self.hits)));
        }
        if get(StatsType::KeysAdded) != self.added || get(StatsType::KeysDeleted) != self.deleted || get(StatsType::KeysAdded).wrapping_sub(get(StatsType::KeysDeleted)) != self.model.len() as u64 {
            return Err(Failure::new("C16", "C16/volume/keys", format!("{}: KeysAdded {} KeysDeleted {}, expected {} and {} ({} held)", phase, get(StatsType::KeysAdded), get(StatsType::KeysDeleted), self.added, self.deleted, self.model.len())));
        }
        if get(StatsType::WeightAdded).wrapping_sub(get(StatsType::WeightRemoved)) != used as u64 {
            return Err(Failure::new("C16", "C16/volume/weight", format!("{}: WeightAdded {} - WeightRemoved {} != weight in use {}", phase, get(StatsType::WeightAdded), get(StatsType::WeightRemoved), used)));
        }
        // every record handed over to the consumer is applied to the sketch (the consumer is idle by now or will be shortly)
        {
            let (inst, cache) = (&self.inst, &self.cache);
            let handed_over = || cache.stats_summary().get(&StatsType::AccessAdded).unwrap_or(0);
            match wait_for(inst, || if inst.access_records_applied.load(Ordering::Acquire) == handed_over() { Some(()) } else { None }) {
                Ok(()) => {}
                Err(WaitError::Panicked(panics)) => return Err(Failure::new("C17", "C17/background-panic", format!("{}: the access consumer panicked: {:?}", phase, panics))),
                Err(WaitError::Stalled) => return Err(Failure::new("C15", "C15/volume/records-not-applied", format!("{}: AccessAdded says {} access records were delivered to the frequency sketch, the sketch has applied {}: records were lost between hand-over and sketch", phase, handed_over(), inst.access_records_applied.load(Ordering::Acquire)))),
            }
        }
        // ... and, as long as the sketch cannot have aged (fewer hits in total than its ageing threshold), the sketch has
        // recorded exactly as many accesses as were delivered
        let (recorded, ages_at) = self.cache.verif_sketch_progress();
        let delivered = self.cache.stats_summary().get(&StatsType::AccessAdded).unwrap_or(0);
        if self.hits < ages_at && recorded != delivered {
            return Err(Failure::new("C15", "C15/volume/records-not-applied", format!("{}: AccessAdded says {} access records were delivered to the frequency sketch, the sketch has recorded {} (it ages at {}, only {} hits so far): delivered records never reached the sketch", phase, delivered, recorded, ages_at, self.hits)));
        }
        let buffered = self.cache.verif_buffered_accesses() as u64;
        if buffered + get(StatsType::AccessAdded) + get(StatsType::AccessDropped) != self.hits {
            return Err(Failure::new("C15", "C15/volume/accounting", format!("{}: hits {} != buffered {} + AccessAdded {} + AccessDropped {}", phase, self.hits, buffered, get(StatsType::AccessAdded), get(StatsType::AccessDropped))));
        }
        if self.inst.has_panicked() { return Err(Failure::new("C17", "C17/background-panic", format!("{}: {:?}", phase, self.inst.panics()))); }
        Ok(())
    }

    /// Moves the clock one second at a time over `seconds`, one complete sweep per second, removing expired keys from the model.
    fn advance(&mut self, seconds: u64) -> Check {
        for _ in 0..seconds {
            self.now += 1_000_000_000;
            self.clock.set(self.now);
            let started = self.inst.sweeps_started.load(Ordering::Acquire);
            let inst = &self.inst;
            match wait_for(inst, || if inst.sweeps_completed.load(Ordering::Acquire) >= started + 2 { Some(()) } else { None }) {
                Ok(()) => {}
                Err(WaitError::Panicked(panics)) => return Err(Failure::new("C17", "C17/background-panic", format!("the sweeper panicked: {:?}", panics))),
                Err(WaitError::Stalled) => return Err(Failure::new("STALL", "stall/sweeper", "the sweeper completed no sweep within the watchdog period".to_string())),
            }
        }
        Ok(())
    }

    fn drop_expired_from_model(&mut self) {
        let now = self.now;
        let expired: Vec<u64> = self.model.iter().filter(|(_, held)| held.deadline.map(|deadline| deadline < now).unwrap_or(false)).map(|(key, _)| *key).collect();
        for key in expired { self.model.remove(&key); self.deleted += 1; }
    }
}

pub fn run_vol_case(case: &VolCase) -> (u64, Option<Failure>) {
    let cfg = Cfg { counters: case.counters, capacity: case.capacity, max_weight: i64::MAX / 4, shards: case.shards, cmd_buf: case.cmd_buf, pool: case.pool, buf: case.buf, tick_us: 200,
        hash: if case.default_hash { HashMode::Default } else { HashMode::Identity }, weight_mode: WeightMode::Default, start_ns: 0, noise_readers: 0, prelude: None };
    let inst = Instance::new();
    let start = BASE_SECS * 1_000_000_000 + 500_000_000;
    let clock = HClock::new(start);
    let cache = Arc::new(crate::seq::build_cache(&cfg, &clock, &inst));
    verif::install(None);
    let mut vol = Vol { cache, inst, clock, now: start, model: BTreeMap::new(), lookups: 0, hits: 0, added: 0, deleted: 0 };
    let universe = case.keys as u64;
    let clients = case.clients.max(1) as usize;
    // value / weight of a key in a phase: a pure function of (seed, key, phase), so that any client thread can compute it
    let seed = case.seed;
    let draw = move |key: u64, phase: u64| { let mut state = seed ^ key.wrapping_mul(0x9E3779B97F4A7C15) ^ (phase << 56); splitmix(&mut state) };
    let ttl_span = case.ttl_span as u64;
    let ttl_step = case.ttl_step as u64;
    let ttl_of = move |key: u64| Duration::from_secs(1 + (key * ttl_step) % ttl_span);
    // runs `op` for every key of `keys`, the keys dealt out to the client threads; every thread awaits its last acknowledgement
    let bulk = |vol: &Vol, keys: &[u64], what: &str, op: &(dyn Fn(&CacheD<u64, u64>, u64) -> tinylfu_cached::cache::command::command_executor::CommandSendResult + Sync)| -> Check {
        let results: Vec<Check> = std::thread::scope(|scope| {
            let handles: Vec<_> = (0..clients).map(|client| {
                let (cache, inst) = (&vol.cache, &vol.inst);
                scope.spawn(move || -> Check {
                    mark_harness_thread();
                    let mut last = None;
                    for key in keys.iter().skip(client).step_by(clients) {
                        match op(cache, *key) { Ok(ack) => last = Some(ack), Err(_) => return Err(Failure::new("C13", "C13/volume/send-error", format!("{}: the call for key {} returned an error without shutdown", what, key))) }
                    }
                    if let Some(ack) = last {
                        match await_ack(&ack, inst) {
                            Ok(_) => {}
                            Err(WaitError::Panicked(panics)) => return Err(Failure::new("C17", "C17/background-panic", format!("a background thread panicked during {}: {:?}", what, panics))),
                            Err(WaitError::Stalled) => return Err(Failure::new("STALL", "stall/ack", format!("the last acknowledgement of {} never completed", what))),
                        }
                    }
                    Ok(())
                })
            }).collect();
            handles.into_iter().map(|handle| handle.join().unwrap_or_else(|_| Err(Failure::new("C17", "C17/caller-panic", format!("a client thread panicked during {}", what))))).collect()
        });
        for result in results { result?; }
        Ok(())
    };
    let result = (|| -> Check {
        let ttl_every = case.ttl_every as u64;
        let with_ttl = move |key: u64| ttl_every > 0 && key % ttl_every == 0;
        // phase 1: bulk put, unawaited
        let keys: Vec<u64> = (0..universe).collect();
        bulk(&vol, &keys, "the bulk put", &|cache, key| {
            let (value, weight) = (draw(key, 1), 1 + (draw(key, 2) % 50) as i64);
            if with_ttl(key) { cache.put_with_weight_and_ttl(key, value, weight, ttl_of(key)) } else { cache.put_with_weight(key, value, weight) }
        })?;
        for key in &keys {
            vol.model.insert(*key, Held { value: draw(*key, 1), weight: 1 + (draw(*key, 2) % 50) as i64, deadline: if with_ttl(*key) { Some(vol.now + ttl_of(*key).as_nanos() as u64) } else { None } });
            vol.added += 1;
        }
        vol.verify(universe, "after the bulk put")?;
        // phase 2: every third key gets a new value and a lower weight; every fifth of those a TTL change (set / remove)
        let keys: Vec<u64> = (0..universe).step_by(3).collect();
        let removes_ttl = move |key: u64| key % 5 == 0 && with_ttl(key) && key % 2 == 0;
        let sets_ttl = move |key: u64| key % 5 == 0 && !(with_ttl(key) && key % 2 == 0);
        let old_weight = move |key: u64| 1 + (draw(key, 2) % 50) as i64;
        bulk(&vol, &keys, "the bulk update", &|cache, key| {
            let mut builder = PutOrUpdateRequestBuilder::new(key).value(draw(key, 3)).weight(1 + old_weight(key) / 2);
            if removes_ttl(key) { builder = builder.remove_time_to_live(); } else if sets_ttl(key) { builder = builder.time_to_live(ttl_of(key + 1)); }
            cache.put_or_update(builder.build())
        })?;
        for key in &keys {
            let held = vol.model[key];
            let deadline = if removes_ttl(*key) { None } else if sets_ttl(*key) { Some(vol.now + ttl_of(*key + 1).as_nanos() as u64) } else { held.deadline };
            vol.model.insert(*key, Held { value: draw(*key, 3), weight: 1 + held.weight / 2, deadline });
        }
        vol.verify(universe, "after the bulk update")?;
        // phase 3: every fourth key is deleted, every eighth put again
        let keys: Vec<u64> = (0..universe).step_by(4).collect();
        bulk(&vol, &keys, "the bulk delete", &|cache, key| cache.delete(key))?;
        for key in &keys { if vol.model.remove(key).is_some() { vol.deleted += 1; } }
        vol.verify(universe, "after the bulk delete")?;
        let keys: Vec<u64> = (0..universe).step_by(8).collect();
        bulk(&vol, &keys, "the bulk re-put", &|cache, key| cache.put_with_weight(key, draw(key, 4), 1 + (draw(key, 5) % 20) as i64))?;
        for key in &keys { vol.model.insert(*key, Held { value: draw(*key, 4), weight: 1 + (draw(*key, 5) % 20) as i64, deadline: None }); vol.added += 1; }
        vol.verify(universe, "after the bulk re-put")?;
        // phase 4: time passes, one second at a time (every second's expiry shard is swept while the clock stands in it; the
        // extra nanosecond keeps the clock off the deadlines themselves): half way, then past every deadline
        vol.now += 1;
        let horizon = case.ttl_span as u64 + 2;
        let first_leg = (horizon / 2).max(1);
        vol.advance(first_leg)?;
        vol.drop_expired_from_model();
        vol.verify(universe, "half way through the deadlines")?;
        // second leg: while the sweeper collects the rest, the clients delete every seventh key that has no deadline (the
        // sweeper and the command worker remove keys, release weight and count at the same time)
        let doomed: Vec<u64> = vol.model.iter().filter(|(key, held)| held.deadline.is_none() && *key % 7 == 0).map(|(key, _)| *key).collect();
        let walk: Check = std::thread::scope(|scope| {
            let deleter = scope.spawn(|| bulk(&vol, &doomed, "the deletes during the sweeps", &|cache, key| cache.delete(key)));
            let mut walked = Ok(());
            let mut now = vol.now;
            for _ in 0..(horizon - first_leg) {
                now += 1_000_000_000;
                vol.clock.set(now);
                let started = vol.inst.sweeps_started.load(Ordering::Acquire);
                let inst = &vol.inst;
                if wait_for(inst, || if inst.sweeps_completed.load(Ordering::Acquire) >= started + 2 { Some(()) } else { None }).is_err() {
                    walked = Err(Failure::new("STALL", "stall/sweeper", "the sweeper completed no sweep within the watchdog period".to_string()));
                    break;
                }
            }
            let deleted = deleter.join().unwrap_or_else(|_| Err(Failure::new("C17", "C17/caller-panic", "the deleting clients panicked".to_string())));
            walked.and(deleted)
        });
        vol.now += (horizon - first_leg) * 1_000_000_000;
        walk?;
        for key in &doomed { if vol.model.remove(key).is_some() { vol.deleted += 1; } }
        vol.drop_expired_from_model();
        if vol.model.values().any(|held| held.deadline.is_some()) {
            return Err(Failure::new("INCONCLUSIVE", "harness/volume-horizon", "harness: a deadline lies beyond the horizon".to_string()));
        }
        vol.verify(universe, "after every deadline")?;
        Ok(())
    })();
    let commands = vol.added + vol.deleted;
    let _ = std::panic::catch_unwind(std::panic::AssertUnwindSafe(|| vol.cache.shutdown()));
    (commands, result.err())
}

pub fn vol_case_result(case: &VolCase) -> CaseResult {
    let (commands, failure) = run_vol_case(case);
    let mut classes = BTreeMap::new();
    classes.insert(format!("keys_{}", case.keys), 1);
    classes.insert(format!("shards_{}", case.shards), 1);
    classes.insert("queue_of_1".to_string(), (case.cmd_buf == 1) as u64);
    classes.insert("with_ttl_keys".to_string(), (case.ttl_every > 0) as u64);
    classes.insert(format!("clients_{}", case.clients), 1);
    CaseResult { nontrivial: failure.is_none() && commands >= 1000, classes, suppressed: BTreeMap::new(), failure }
}

// ---------------------------------------------------------------------------------------------
// C01 at volume: a full cache of thousands of light keys, a stream of puts that each evict, and readers that poll
// total_weight_used() all the time

#[derive(Clone, Debug, PartialEq, Eq, Hash, Serialize, Deserialize)]
pub struct PressureCase {
    pub keys: u32,
    pub shards: usize,
    pub capacity: usize,
    pub cmd_buf: usize,
    pub readers: u8,
    pub fresh: u32,
    pub weight: i64,
}

pub fn pressure_case_strategy(thorough: bool) -> BoxedStrategy<PressureCase> {
    let keys = if thorough { prop_oneof![Just(500u32), Just(4_000), Just(30_000)].boxed() } else { prop_oneof![Just(500u32), Just(2_000), Just(8_000)].boxed() };
    (keys, prop_oneof![Just(2usize), Just(16), Just(256)], prop_oneof![Just(16usize), Just(1 << 14)], prop_oneof![Just(1usize), Just(64), Just(4096)], 1u8..=3, prop_oneof![Just(2_000u32), Just(6_000)], 1i64..=3)
        .prop_map(|(keys, shards, capacity, cmd_buf, readers, fresh, weight)| PressureCase { keys, shards, capacity, cmd_buf, readers, fresh, weight }).boxed()
}

/// Returns (observations of the readers, failure).
pub fn run_pressure_case(case: &PressureCase) -> (u64, Option<Failure>) {
    let limit = case.keys as i64 * case.weight;
    let cfg = Cfg { counters: 4096, capacity: case.capacity, max_weight: limit, shards: case.shards, cmd_buf: case.cmd_buf, pool: 4, buf: 64, tick_us: 1000,
        hash: HashMode::Identity, weight_mode: WeightMode::Default, start_ns: 0, noise_readers: 0, prelude: None };
    let inst = Instance::new();
    let clock = HClock::new(BASE_SECS * 1_000_000_000);
    let cache = Arc::new(crate::seq::build_cache(&cfg, &clock, &inst));
    verif::install(None);
    let stop = Arc::new(std::sync::atomic::AtomicBool::new(false));
    let result = (|| -> Result<u64, Failure> {
        let stalled = |what: &str| Failure::new("STALL", "stall/ack", format!("the last acknowledgement of {} never completed", what));
        let mut last = None;
        for key in 0..case.keys as u64 { last = cache.put_with_weight(key, key, case.weight).ok().or(last); }
        if let Some(ack) = last { await_ack(&ack, &inst).map_err(|_| stalled("the fill"))?; }
        let used = cache.total_weight_used();
        if used != limit { return Err(Failure::new("C05", "C05/volume/fill", format!("{} keys of weight {} were put into a cache of weight {}: total weight {}", case.keys, case.weight, limit, used))); }
        let observed: Vec<(i64, i64, u64)> = std::thread::scope(|scope| {
            let readers: Vec<_> = (0..case.readers).map(|_| {
                let (cache, stop) = (cache.clone(), stop.clone());
                scope.spawn(move || {
                    let (mut low, mut high, mut count) = (i64::MAX, i64::MIN, 0u64);
                    while !stop.load(Ordering::Acquire) {
                        let used = cache.total_weight_used();
                        low = low.min(used); high = high.max(used); count += 1;
                    }
                    (low, high, count)
                })
            }).collect();
            // every put of a fresh key needs an eviction (the cache is exactly full); every fourth op lowers a weight or deletes
            // (the readers are stopped whatever happens here: a panic of a call must not leave them spinning)
            let written = std::panic::catch_unwind(std::panic::AssertUnwindSafe(|| {
                let mut last = None;
                for index in 0..case.fresh as u64 {
                    let key = case.keys as u64 + index;
                    last = cache.put_with_weight(key, key, case.weight).ok().or(last);
                    if index % 4 == 1 { last = cache.delete(index).ok().or(last); }
                    // (with a value: the fresh key may have been refused or evicted meanwhile, then this acts as a put)
                    if index % 4 == 3 && case.weight > 1 { last = cache.put_or_update(PutOrUpdateRequestBuilder::new(key).value(key).weight(case.weight - 1).build()).ok().or(last); }
                }
                match last { Some(ack) => await_ack(&ack, &inst).is_ok(), None => true }
            }));
            stop.store(true, Ordering::Release);
            let waited = written.unwrap_or(false);
            let mut observed: Vec<(i64, i64, u64)> = readers.into_iter().map(|reader| reader.join().unwrap_or((0, 0, 0))).collect();
            if !waited { observed.push((i64::MIN, i64::MIN, 0)); }
            observed
        });
        if observed.iter().any(|(low, high, count)| *count == 0 && *low == i64::MIN && *high == i64::MIN) { return Err(stalled("the stream of evicting puts")); }
        let observations: u64 = observed.iter().map(|(_, _, count)| *count).sum();
        for (low, high, count) in &observed {
            if *count > 0 && (*high > limit || *low < 0) {
                return Err(Failure::new("C01", "C01/volume/monitor", format!("a reader polling total_weight_used() while {} fresh keys were put into a full cache of {} keys (weight limit {}) observed values from {} to {} in {} readings: outside [0, {}]", case.fresh, case.keys, limit, low, high, count, limit)));
            }
        }
        if inst.has_panicked() { return Err(Failure::new("C17", "C17/background-panic", format!("{:?}", inst.panics()))); }
        Ok(observations)
    })();
    stop.store(true, Ordering::Release);
    let _ = std::panic::catch_unwind(std::panic::AssertUnwindSafe(|| cache.shutdown()));
    match result { Ok(observations) => (observations, None), Err(failure) => (0, Some(failure)) }
}

pub fn pressure_case_result(case: &PressureCase) -> CaseResult {
    let (observations, failure) = run_pressure_case(case);
    let mut classes = BTreeMap::new();
    classes.insert(format!("keys_{}", case.keys), 1);
    classes.insert(format!("shards_{}", case.shards), 1);
    CaseResult { nontrivial: failure.is_none() && observations >= 1000, classes, suppressed: BTreeMap::new(), failure }
}
