//! Case grammar for the sequential (SEQ) and concurrent (CONC) engines: configuration, operations,
//! symbolic argument selectors, and the proptest strategies that generate them.

use proptest::prelude::*;
use serde::{Deserialize, Serialize};

#[derive(Clone, Debug, PartialEq, Eq, Hash, Serialize, Deserialize)]
pub enum HashMode {
    /// hash(k) = k
    Identity,
    /// hash(k) = 7 for every key: all keys collide in the sketch
    Constant,
    /// hash(k) = k % 2
    Mod2,
    /// the crate's default (SipHash of the key)
    Default,
}

#[derive(Clone, Debug, PartialEq, Eq, Hash, Serialize, Deserialize)]
pub enum WeightMode {
    /// the crate's default size-based function (40 for u64/u64, 64 with a TTL)
    Default,
    /// weight(k, _, ttl) = table[k % len] + 24 if ttl
    Table(Vec<i64>),
    /// weight(k, v, ttl) = table[(k + low 16 bits of v) % len] + 24 if ttl: a new value changes the computed weight
    ByValue(Vec<i64>),
}

/// Another cache instance that the same harness thread builds and uses before the cache under test (and, if
/// `keep_alive`, leaves running beside it): instances of one process must not influence each other through statics,
/// thread-locals or shared pools.
#[derive(Clone, Debug, PartialEq, Eq, Hash, Serialize, Deserialize)]
pub struct Prelude {
    pub counters: u64,
    pub shards: usize,
    pub cmd_buf: usize,
    pub pool: usize,
    pub buf: usize,
    pub keys: u8,
    pub reads: u8,
    pub keep_alive: bool,
}

#[derive(Clone, Debug, PartialEq, Eq, Hash, Serialize, Deserialize)]
pub struct Cfg {
    pub counters: u64,
    pub capacity: usize,
    pub max_weight: i64,
    pub shards: usize,
    pub cmd_buf: usize,
    pub pool: usize,
    pub buf: usize,
    pub tick_us: u64,
    pub hash: HashMode,
    pub weight_mode: WeightMode,
    /// clock start, nanoseconds after BASE_SECS
    pub start_ns: u64,
    /// background threads hammering reads of dedicated (saturated) keys for the whole case: keeps the access consumer busy
    #[serde(default)]
    pub noise_readers: u8,
    #[serde(default)]
    pub prelude: Option<Prelude>,
}

impl Cfg {
    pub fn weight_fn(&self, key: u64, value: u64, ttl: bool) -> i64 {
        match &self.weight_mode {
            WeightMode::Default => if ttl { 64 } else { 40 },
            WeightMode::Table(table) => table[(key as usize) % table.len()] + if ttl { 24 } else { 0 },
            WeightMode::ByValue(table) => table[((key + (value & 0xffff)) as usize) % table.len()] + if ttl { 24 } else { 0 },
        }
    }

    pub fn hash_of(&self, key: u64) -> Option<u64> {
        match self.hash {
            HashMode::Identity => Some(key),
            HashMode::Constant => Some(7),
            HashMode::Mod2 => Some(key % 2),
            HashMode::Default => None,
        }
    }
}

/// Symbolic weight, resolved against the cache weight `L` when the op is executed.
#[derive(Clone, Debug, PartialEq, Eq, Hash, Serialize, Deserialize)]
pub enum WSel {
    Abs(i64),
    /// max(1, L/16 * n), n in 1..=16
    Sixteenth(u8),
    Limit,
    LimitMinus(i64),
    LimitPlus(i64),
    TwiceLimit,
    MaxMinus(i64),
    /// the weight currently charged for the key (upserts; resolved by the interpreter, 10 if the key is not held)
    Current,
}

impl WSel {
    pub fn resolve(&self, limit: i64) -> i64 {
        let weight = match self {
            WSel::Abs(n) => *n,
            WSel::Sixteenth(n) => (limit / 16).saturating_mul(*n as i64),
            WSel::Limit => limit,
            WSel::LimitMinus(d) => limit - *d,
            WSel::LimitPlus(d) => limit.saturating_add(*d),
            WSel::TwiceLimit => limit.saturating_mul(2),
            WSel::MaxMinus(d) => i64::MAX - *d,
            WSel::Current => 10,
        };
        weight.max(1)
    }
}

/// Symbolic time-to-live.
#[derive(Clone, Debug, PartialEq, Eq, Hash, Serialize, Deserialize)]
pub enum TtlSel {
    Zero,
    Nanos(u32),
    Millis(u32),
    Secs(u32),
    SecsNanos(u32, u32),
    Days(u32),
    Years(u32),
    /// the largest TTL for which now + ttl is representable
    MaxRepresentable,
    /// Duration::MAX >> n : now + ttl overflows SystemTime (known finding F8; probes only)
    Overflow(u8),
}

#[derive(Clone, Debug, PartialEq, Eq, Hash, Serialize, Deserialize)]
pub enum TtlReq {
    Keep,
    Set(TtlSel),
    Remove,
}

#[derive(Clone, Debug, PartialEq, Eq, Hash, Serialize, Deserialize)]
pub enum AdvSel {
    Nanos(u32),
    Millis(u32),
    Secs(u32),
    /// move the clock to deadline(key) + delta ns (if that is in the future, else 1 ns)
    ToDeadline { k: u8, delta: i8 },
    Days(u32),
    Years(u32),
}

#[derive(Copy, Clone, Debug, PartialEq, Eq, Hash, Serialize, Deserialize)]
pub enum ReadKind {
    Get,
    GetRef,
    MapGet,
    MapGetRef,
    MultiGet,
    MultiGetIter,
    MultiGetMapIter,
}

pub const READ_KINDS: [ReadKind; 7] = [ReadKind::Get, ReadKind::GetRef, ReadKind::MapGet, ReadKind::MapGetRef, ReadKind::MultiGet, ReadKind::MultiGetIter, ReadKind::MultiGetMapIter];

#[derive(Clone, Debug, PartialEq, Eq, Hash, Serialize, Deserialize)]
pub enum Op {
    Put { k: u8, w: Option<WSel>, ttl: Option<TtlSel> },
    Upsert { k: u8, value: bool, w: Option<WSel>, ttl: TtlReq },
    Delete { k: u8 },
    Read { kind: ReadKind, keys: Vec<u8> },
    /// all seven read variants on the same keys must agree
    ReadAll { keys: Vec<u8> },
    /// n plain gets of one key (builds access frequency)
    Touch { k: u8, n: u8 },
    Advance(AdvSel),
    /// advance by 1 s `shards` times, one complete sweep each: every expired key must be gone afterwards
    SweepRotation,
    /// move the clock to 1 ns before, onto and 1 ns after the deadline of the key, reading it with every variant each time
    DeadlineWalk { k: u8 },
    /// consume a multi_get iterator step by step, executing one awaited write between consecutive next() calls:
    /// each next() must reflect the state at the time it is called
    IterSteps { map: bool, keys: Vec<u8>, between: Vec<Op> },
    /// the clock jumps forward in the middle of the wrapped write: its reading number `after_reads` still sees the old
    /// time, every later reading (of the caller or the worker) the new one
    JumpDuring { after_reads: u8, by_ms: u32, op: Box<Op> },
    /// put `count` keys from a separate range (100 + first ..), each with the same small weight and the same TTL if any:
    /// fills the cache with many light entries (many victims for one put, many expiries in one sweep)
    Fill { first: u8, count: u8, w: u8, ttl: Option<TtlSel> },
    /// make `k` a key with a time-to-live if it is not, park the sweeper, move the clock `past_ms` + 1 ms beyond the key's
    /// deadline (the key is now expired and certainly not swept), if `read_first` read it with every variant (all must
    /// miss), execute the wrapped write on `k`, release the sweeper,
    /// sweep every shard once and read the key with every variant
    ExpiredWrite { k: u8, past_ms: u32, write: Box<Op>, #[serde(default)] read_first: bool },
    /// inside a burst only: let the parked command worker execute exactly one queued command (the oldest)
    StepWorker,
    /// park the command worker, issue the burst without awaiting, release, await everything
    Stall { burst: Vec<Op> },
}

impl Op {
    pub fn is_write(&self) -> bool { matches!(self, Op::Put { .. } | Op::Upsert { .. } | Op::Delete { .. }) }
    pub fn key(&self) -> Option<u8> {
        match self {
            Op::Put { k, .. } | Op::Upsert { k, .. } | Op::Delete { k } | Op::Touch { k, .. } | Op::DeadlineWalk { k } => Some(*k),
            _ => None,
        }
    }
}

#[derive(Clone, Debug, PartialEq, Eq, Hash, Serialize, Deserialize)]
pub struct SeqCase {
    pub cfg: Cfg,
    pub ops: Vec<Op>,
}

// ---------------------------------------------------------------------------------------------
// Generation parameters

#[derive(Clone, Debug)]
pub struct GenParams {
    pub max_ops: usize,
    pub limits: Vec<i64>,
    pub counters: Vec<u64>,
    pub shards: Vec<usize>,
    pub cmd_bufs: Vec<usize>,
    pub ticks_us: Vec<u64>,
    pub hash_modes: Vec<HashMode>,
    /// weights relative to the limit (pressure) or small absolute weights only (no pressure)
    pub pressure: bool,
    /// generate weights at arithmetic boundaries (i64::MAX - k, 24, 25, L+-1)
    pub boundary: bool,
    pub ttl: bool,
    pub big_ttl: bool,
    pub stall: bool,
    /// relative frequencies: put, upsert, delete, read, readall, touch, advance, rotation, stall, deadline walk
    pub mix: [u32; 10],
    pub max_key: u8,
    pub noise_readers: Vec<u8>,
    /// relative frequency of Fill ops (0 = never)
    pub fill: u32,
    /// a prelude (another cache on the same thread first) in `prelude` of 8 cases
    pub prelude: u32,
    /// relative frequency of ExpiredWrite ops (0 = never)
    pub expired_write: u32,
}

impl GenParams {
    pub fn base() -> Self {
        GenParams {
            max_ops: 40,
            limits: vec![100, 1000],
            counters: vec![10, 64, 1000],
            shards: vec![2, 2, 4, 8, 16],
            cmd_bufs: vec![1, 2, 8, 64],
            ticks_us: vec![500],
            hash_modes: vec![HashMode::Identity, HashMode::Identity, HashMode::Default, HashMode::Constant, HashMode::Mod2],
            pressure: true,
            boundary: false,
            ttl: true,
            big_ttl: false,
            stall: true,
            mix: [30, 20, 12, 20, 3, 6, 12, 2, 8, 3],
            max_key: 8,
            noise_readers: vec![0],
            fill: 0,
            prelude: 1,
            expired_write: 2,
        }
    }
}

fn pick<T: Clone + std::fmt::Debug + 'static>(items: &[T]) -> BoxedStrategy<T> {
    let items = items.to_vec();
    (0..items.len()).prop_map(move |index| items[index].clone()).boxed()
}

pub fn key_strategy(max_key: u8) -> BoxedStrategy<u8> {
    let max_key = max_key.max(1);
    let low = max_key.min(3);
    if max_key <= 3 {
        (0..max_key).boxed()
    } else {
        prop_oneof![6 => 0..low, 3 => 0..max_key.min(6), 1 => 0..max_key].boxed()
    }
}

pub fn wsel_strategy(params: &GenParams) -> BoxedStrategy<WSel> {
    if !params.pressure && !params.boundary {
        return prop_oneof![4 => (1i64..=64).prop_map(WSel::Abs), 1 => Just(WSel::Abs(24)), 1 => Just(WSel::Abs(25)), 1 => Just(WSel::Current)].boxed();
    }
    if params.boundary {
        return prop_oneof![
            3 => (1i64..=64).prop_map(WSel::Abs),
            2 => prop_oneof![Just(24i64), Just(25), Just(1), Just(2)].prop_map(WSel::Abs),
            3 => (1u8..=16).prop_map(WSel::Sixteenth),
            2 => Just(WSel::Limit),
            2 => (1i64..=2).prop_map(WSel::LimitMinus),
            2 => (1i64..=2).prop_map(WSel::LimitPlus),
            1 => Just(WSel::TwiceLimit),
            2 => (0i64..=2).prop_map(WSel::MaxMinus),
        ].boxed();
    }
    prop_oneof![
        4 => (1i64..=40).prop_map(WSel::Abs),
        2 => Just(WSel::Current),
        6 => (1u8..=16).prop_map(WSel::Sixteenth),
        1 => Just(WSel::Limit),
        1 => (1i64..=2).prop_map(WSel::LimitMinus),
        1 => (1i64..=2).prop_map(WSel::LimitPlus),
        1 => Just(WSel::TwiceLimit),
    ].boxed()
}

pub fn ttl_strategy(params: &GenParams) -> BoxedStrategy<TtlSel> {
    let mut choices: Vec<(u32, BoxedStrategy<TtlSel>)> = vec![
        (1, Just(TtlSel::Zero).boxed()),
        (2, (1u32..=3).prop_map(TtlSel::Nanos).boxed()),
        (2, (1u32..=999).prop_map(TtlSel::Millis).boxed()),
        (8, (0u32..=6).prop_map(TtlSel::Secs).boxed()),
        (3, ((0u32..=4), prop_oneof![Just(1u32), Just(999_999_999u32), (0u32..1_000_000_000)]).prop_map(|(s, n)| TtlSel::SecsNanos(s, n)).boxed()),
        (1, (1u32..=400).prop_map(TtlSel::Days).boxed()),
    ];
    if params.big_ttl {
        choices.push((2, (1u32..=200).prop_map(TtlSel::Years).boxed()));
        choices.push((2, Just(TtlSel::MaxRepresentable).boxed()));
        choices.push((2, (0u8..=3).prop_map(TtlSel::Overflow).boxed()));
    }
    proptest::strategy::Union::new_weighted(choices).boxed()
}

pub fn adv_strategy(params: &GenParams) -> BoxedStrategy<AdvSel> {
    prop_oneof![
        2 => (1u32..=3).prop_map(AdvSel::Nanos),
        2 => (1u32..=999).prop_map(AdvSel::Millis),
        8 => (1u32..=5).prop_map(AdvSel::Secs),
        8 => (key_strategy(params.max_key), -1i8..=1).prop_map(|(k, delta)| AdvSel::ToDeadline { k, delta }),
        1 => (1u32..=400).prop_map(AdvSel::Days),
        1 => (1u32..=20).prop_map(AdvSel::Years),
    ].boxed()
}

pub fn read_kind_strategy() -> BoxedStrategy<ReadKind> {
    (0usize..7).prop_map(|index| READ_KINDS[index]).boxed()
}

fn write_op_strategy(params: &GenParams) -> BoxedStrategy<Op> {
    let key = key_strategy(params.max_key);
    let ttl_opt: BoxedStrategy<Option<TtlSel>> = if params.ttl {
        prop_oneof![3 => Just(None), 2 => ttl_strategy(params).prop_map(Some)].boxed()
    } else { Just(None).boxed() };
    let w_opt: BoxedStrategy<Option<WSel>> = prop_oneof![2 => Just(None), 3 => wsel_strategy(params).prop_map(Some)].boxed();
    let ttl_req: BoxedStrategy<TtlReq> = if params.ttl {
        prop_oneof![3 => Just(TtlReq::Keep), 3 => ttl_strategy(params).prop_map(TtlReq::Set), 2 => Just(TtlReq::Remove)].boxed()
    } else { Just(TtlReq::Keep).boxed() };
    let [put, upsert, delete, ..] = params.mix;
    prop_oneof![
        put => (key.clone(), w_opt.clone(), ttl_opt).prop_map(|(k, w, ttl)| Op::Put { k, w, ttl }),
        upsert => (key.clone(), any::<bool>(), w_opt, ttl_req).prop_map(|(k, value, w, ttl)| Op::Upsert { k, value, w, ttl }),
        delete => key.prop_map(|k| Op::Delete { k }),
    ].boxed()
}

fn read_op_strategy(params: &GenParams) -> BoxedStrategy<Op> {
    let key = key_strategy(params.max_key);
    (read_kind_strategy(), prop::collection::vec(key, 1..=4)).prop_map(|(kind, keys)| Op::Read { kind, keys }).boxed()
}

pub fn op_strategy(params: &GenParams) -> BoxedStrategy<Op> {
    let key = key_strategy(params.max_key);
    let [put, upsert, delete, read, readall, touch, advance, rotation, stall, walk] = params.mix;
    let writes = write_op_strategy(params);
    let reads = read_op_strategy(params);
    let mut choices: Vec<(u32, BoxedStrategy<Op>)> = vec![
        (put + upsert + delete, writes.clone()),
        (read.max(1), reads.clone()),
        (readall.max(1), prop::collection::vec(key.clone(), 1..=4).prop_map(|keys| Op::ReadAll { keys }).boxed()),
        (touch.max(1), (key.clone(), 1u8..=20).prop_map(|(k, n)| Op::Touch { k, n }).boxed()),
    ];
    if params.ttl {
        choices.push((advance.max(1), adv_strategy(params).prop_map(Op::Advance).boxed()));
        choices.push((rotation.max(1), Just(Op::SweepRotation).boxed()));
        choices.push((walk.max(1), key.clone().prop_map(|k| Op::DeadlineWalk { k }).boxed()));
    }
    choices.push((read.max(3) / 3, (any::<bool>(), prop::collection::vec(key.clone(), 2..=4), prop::collection::vec(writes.clone(), 1..=3)).prop_map(|(map, keys, between)| Op::IterSteps { map, keys, between }).boxed()));
    if params.ttl {
        choices.push(((advance / 3).max(1), (0u8..=3, prop_oneof![Just(1u32), Just(500), Just(1001), Just(2500)], writes.clone()).prop_map(|(after_reads, by_ms, op)| Op::JumpDuring { after_reads, by_ms, op: Box::new(op) }).boxed()));
    }
    if params.ttl && params.expired_write > 0 {
        choices.push((params.expired_write, (key.clone(), prop_oneof![Just(0u32), Just(1), Just(998), Just(1500), Just(3000)],
            // one write, or a stall-window burst (worker parked) of writes and reads, all aimed at the expired key
            prop_oneof![3 => writes.clone(), 2 => prop::collection::vec(prop_oneof![3 => writes.clone(), 1 => reads.clone()], 2..=4).prop_map(|burst| Op::Stall { burst })],
            any::<bool>()).prop_map(|(k, past_ms, write, read_first)| Op::ExpiredWrite { k, past_ms, write: Box::new(write), read_first }).boxed()));
    }
    if params.fill > 0 {
        let ttl: BoxedStrategy<Option<TtlSel>> = if params.ttl { prop_oneof![1 => Just(None), 2 => (0u32..=6).prop_map(|s| Some(TtlSel::Secs(s)))].boxed() } else { Just(None).boxed() };
        choices.push((params.fill, (0u8..100, 10u8..=70, 1u8..=5, ttl).prop_map(|(first, count, w, ttl)| Op::Fill { first, count, w, ttl }).boxed()));
    }
    if params.stall && stall > 0 {
        let burst_op = prop_oneof![10 => writes, 2 => reads, 2 => Just(Op::StepWorker)];
        choices.push((stall, prop::collection::vec(burst_op, 1..=6).prop_map(|burst| Op::Stall { burst }).boxed()));
    }
    proptest::strategy::Union::new_weighted(choices).boxed()
}

pub fn cfg_strategy(params: &GenParams) -> BoxedStrategy<Cfg> {
    let table = prop::collection::vec(prop_oneof![3 => 1i64..=30, 1 => Just(24i64), 1 => Just(25i64), 1 => 30i64..=80], 1..=4);
    let weight_mode = prop_oneof![1 => Just(WeightMode::Default), 2 => table.prop_map(WeightMode::Table), 1 => prop::collection::vec(prop_oneof![3 => 1i64..=30, 1 => 30i64..=80], 3..=7).prop_map(WeightMode::ByValue)];
    (
        pick(&params.counters), pick(&params.limits), pick(&params.shards), pick(&params.cmd_bufs),
        (1usize..=3, 1usize..=8), pick(&params.ticks_us), pick(&params.hash_modes), weight_mode,
        (0u64..8, prop_oneof![Just(0u64), Just(999_999_999u64), 0u64..1_000_000_000], prop_oneof![4 => Just(16usize), 1 => Just(1usize), 1 => Just(1024usize)]),
    ).prop_map(|(counters, max_weight, shards, cmd_buf, (pool, buf), tick_us, hash, weight_mode, (start_s, start_n, capacity))| Cfg {
        counters,
        capacity,
        max_weight,
        shards,
        cmd_buf,
        pool,
        buf,
        tick_us,
        hash,
        weight_mode,
        start_ns: start_s * 1_000_000_000 + start_n,
        noise_readers: 0,
        prelude: None,
    }).boxed()
}

pub fn seq_case_strategy(params: &GenParams) -> BoxedStrategy<SeqCase> {
    let with_prelude = params.prelude;
    let prelude = (0u32..8, pick(&[10u64, 64, 1000]), pick(&[2usize, 4, 16, 256]), pick(&[1usize, 8, 64]), pick(&[2usize, 4, 8, 32]), pick(&[1usize, 4, 64]), 1u8..=12, 0u8..=40, any::<bool>())
        .prop_map(move |(draw, counters, shards, cmd_buf, pool, buf, keys, reads, keep_alive)| if draw < with_prelude { Some(Prelude { counters, shards, cmd_buf, pool, buf, keys, reads, keep_alive }) } else { None });
    (cfg_strategy(params), pick(&params.noise_readers), prop::collection::vec(op_strategy(params), 1..=params.max_ops), prelude)
        .prop_map(|(mut cfg, noise_readers, ops, prelude)| {
            cfg.noise_readers = noise_readers;
            cfg.prelude = prelude;
            // one pool buffer: the harness can flush its own buffered access records deterministically (see pre_read_estimates)
            if noise_readers > 0 { cfg.pool = 1; }
            SeqCase { cfg, ops }
        }).boxed()
}
