//! Per-property checks: which campaigns run for which property, with which generator profile, known-finding
//! policy and non-triviality rule.

use std::collections::BTreeMap;
use std::sync::Arc;

use serde_json::{json, Value};

use crate::case::*;
use crate::model::*;
use crate::runner::*;
use crate::seq::{run_seq_case, run_seq_case_focus};

pub type NtRule = fn(&CaseStats) -> bool;

fn classes_of(stats: &CaseStats) -> BTreeMap<String, u64> {
    let mut classes = BTreeMap::new();
    let mut add = |name: &str, present: bool| { classes.insert(name.to_string(), present as u64); };
    add("with_eviction", stats.evictions > 0);
    add("with_multi_victim_put", stats.multi_victim_puts > 0);
    add("with_partial_evict_then_reject", stats.partial_evict_then_reject > 0);
    add("with_tie_eviction", stats.tie_evictions > 0);
    add("with_saturated_estimate", stats.saturated_estimates > 0);
    add("with_sample_below_five", stats.small_samples > 0);
    add("with_reject_for_space", stats.rejected_space > 0);
    add("with_reject_for_weight", stats.rejected_weight > 0);
    add("with_key_already_exists", stats.rejected_exists > 0);
    add("with_key_already_exists_at_worker", stats.rejected_exists_at_worker > 0);
    add("with_sweep_removing_keys", stats.swept_keys > 0);
    add("with_sweep_and_survivor", stats.sweeps_with_survivor > 0);
    add("with_rotation", stats.rotations > 0);
    add("with_stall_window", stats.stall_windows > 0);
    add("with_single_worker_step_inside_window", stats.worker_steps > 0);
    add("with_clock_jump_inside_an_operation", stats.jumps_inside_operations > 0);
    add("with_iterator_step_after_a_write", stats.iterator_steps_after_write > 0);
    add("with_same_key_burst", stats.same_key_bursts > 0);
    add("with_read_between_delete_and_ack", stats.reads_in_stall_after_delete > 0);
    add("with_reincarnation", stats.reincarnations > 0);
    add("with_ttl_change", stats.ttl_changes > 0);
    add("with_ttl_removal", stats.ttl_removed > 0);
    add("with_reput_of_ttl_key", stats.reput_of_ttl_key > 0);
    add("with_read_1ns_before_deadline", stats.reads_near_deadline_before > 0);
    add("with_read_1ns_after_deadline", stats.reads_near_deadline_after > 0);
    add("with_upsert_in_place", stats.upserts_in_place > 0);
    add("with_upsert_as_put", stats.upserts_as_put > 0);
    add("with_weight_decrease", stats.weight_decreases > 0);
    add("with_boundary_argument", stats.boundary_args > 0);
    add("with_sketch_reset", stats.sketch_resets > 0);
    add("above_half_full", stats.max_used_permille > 500);
    add("all_hit_workload", stats.all_hit && stats.reads > 0);
    add("all_miss_workload", stats.all_miss && stats.reads > 0);
    add("no_lookups", stats.reads == 0);
    classes
}

pub struct SeqCampaign {
    pub name: &'static str,
    pub params: GenParams,
    pub policy: Policy,
    pub cases_quick: u64,
    pub cases_thorough: u64,
    pub nt: NtRule,
    pub rule: &'static str,
}

fn nt_c01(s: &CaseStats) -> bool { s.max_used_permille > 500 && (s.evictions + s.rejected_space + s.rejected_weight > 0) }
fn nt_c02(s: &CaseStats) -> bool { s.iterator_steps_after_write >= 1 && s.hits >= 3 }
fn nt_c03(s: &CaseStats) -> bool { s.reincarnations >= 1 && s.sweep_after_ttl_change >= 1 && s.sketch_resets >= 1 }
fn nt_c04(s: &CaseStats) -> bool { s.reads_in_stall_after_delete >= 1 }
fn nt_c05(s: &CaseStats) -> bool { s.same_key_bursts >= 1 }
fn nt_c06(s: &CaseStats) -> bool { s.evictions >= 1 && (s.tie_evictions + s.multi_victim_puts + s.partial_evict_then_reject + s.small_samples + s.saturated_estimates > 0) }
fn nt_c07(s: &CaseStats) -> bool { s.puts_on_used_key >= 1 }
fn nt_c08(s: &CaseStats) -> bool { s.upsert_shapes >= 2 && s.repeated_upserts >= 1 }
fn nt_c09(s: &CaseStats) -> bool { s.reads_near_deadline_before >= 1 && s.reads_near_deadline_after >= 1 && s.ttl_changes >= 1 }
fn nt_c10(s: &CaseStats) -> bool { s.swept_keys >= 1 && s.sweeps_with_survivor >= 1 && s.reput_of_ttl_key >= 1 }
fn nt_c11(s: &CaseStats) -> bool { s.stall_windows >= 1 && s.same_key_bursts >= 1 }
fn nt_c16(s: &CaseStats) -> bool { ((s.all_hit || s.all_miss) && s.reads > 0 || s.reads == 0 || true) && (s.weight_decreases + s.evictions + s.swept_keys > 0) }
fn nt_c17(s: &CaseStats) -> bool { s.boundary_args >= 1 && s.ops_after_boundary >= 5 }
fn nt_probe(_s: &CaseStats) -> bool { true }

fn no_pressure(mut params: GenParams) -> GenParams {
    params.pressure = false;
    params.limits = vec![4000, 1 << 40, i64::MAX];
    params
}

/// Scale variant of a profile: long histories over many keys, weights beyond 2^31.
pub fn scaled(mut params: GenParams) -> GenParams {
    params.max_ops = 300;
    params.max_key = 48;
    params.limits = if params.pressure { vec![1000, 100_000, 1 << 33, 1 << 40] } else { vec![1 << 20, 1 << 40] };
    params.counters = vec![16, 64, 1000];
    params.fill = 6;
    if params.pressure { params.limits.push(150); params.limits.push(300); }
    params
}

const RULE_SCALE: &str = "scale variant of the main campaign: histories of up to 300 operations over up to 48 keys, cache weights up to 2^40 with key weights beyond 2^31, same oracles; non-trivial by the rule of the main campaign";

pub fn profile(property: &str) -> GenParams {
    let mut params = GenParams::base();
    match property {
        "C01" => {
            params.limits = vec![1, 7, 100, 100, 1000, 1 << 40, i64::MAX];
            params.mix = [40, 20, 10, 8, 1, 5, 8, 2, 10, 3];
        }
        "C02" => {
            params.limits = vec![100, 1000, 4000];
            params.mix = [25, 20, 12, 30, 12, 4, 10, 2, 8, 3];
        }
        "C03" => {
            params = no_pressure(params);
            params.max_ops = 90;
            params.counters = vec![2, 3, 10];
            params.mix = [25, 20, 12, 15, 2, 20, 14, 4, 6, 3];
        }
        "C04" => {
            params.limits = vec![100, 1000, 4000];
            params.mix = [30, 10, 25, 15, 2, 3, 8, 2, 25, 3];
        }
        "C05" => {
            params.limits = vec![100, 1000, 1000, i64::MAX];
            params.max_key = 4;
            params.mix = [35, 20, 15, 8, 1, 3, 6, 2, 35, 3];
        }
        "C06" => {
            params.limits = vec![50, 100, 300];
            params.ttl = false;
            params.stall = false;
            params.max_ops = 60;
            params.counters = vec![1000, 1000, 10, 4];
            params.mix = [45, 8, 6, 8, 1, 40, 0, 0, 0, 3];
        }
        "C06-contended" => {
            params.limits = vec![60, 100, 300];
            params.ttl = false;
            params.stall = false;
            params.max_ops = 50;
            params.counters = vec![1 << 22];
            params.hash_modes = vec![HashMode::Identity];
            params.cmd_bufs = vec![8];
            params.noise_readers = vec![2, 3, 5];
            params.mix = [50, 6, 6, 6, 1, 30, 0, 0, 0, 0];
        }
        "C07" => {
            params.limits = vec![100, 1000, 4000];
            params.mix = [45, 10, 15, 10, 1, 3, 12, 3, 6, 3];
        }
        "C08" => {
            params.limits = vec![1000, 4000, 1 << 40];
            params.mix = [18, 45, 8, 12, 1, 2, 10, 2, 14, 3];
        }
        "C09" => {
            params = no_pressure(params);
            params.big_ttl = true;
            params.ticks_us = vec![500, 500, 500, 500, 500, 500, 500, 3_600_000_000];
            params.mix = [25, 30, 4, 20, 3, 2, 12, 1, 3, 30];
        }
        "C10-mass-expiry" => {
            params.limits = vec![1 << 20];
            params.pressure = false;
            params.shards = vec![2, 4];
            params.stall = false;
            params.max_ops = 40;
            params.fill = 40;
            params.mix = [6, 6, 4, 6, 1, 1, 25, 8, 0, 2];
        }
        "C10" => {
            params.limits = vec![200, 1000, 4000];
            params.mix = [30, 25, 10, 8, 1, 3, 25, 8, 5, 3];
        }
        "C11" => {
            params.limits = vec![1000, 4000];
            params.max_key = 5;
            params.cmd_bufs = vec![1, 2, 3, 8];
            params.mix = [30, 12, 25, 10, 1, 2, 4, 1, 45, 1];
        }
        "C16" => {
            params.limits = vec![100, 1000, 4000, i64::MAX];
            params.mix = [30, 20, 10, 25, 3, 6, 10, 2, 6, 3];
        }
        "C17" => {
            params.boundary = true;
            params.big_ttl = true;
            params.limits = vec![1, 2, 24, 25, 100, i64::MAX - 1, i64::MAX];
            params.counters = vec![1, 1, 2, 3, 5, 17, 100, 65_536];
            params.cmd_bufs = vec![1, 1, 2];
            params.mix = [35, 30, 10, 12, 1, 3, 10, 2, 8, 3];
        }
        _ => {}
    }
    params
}

const RULE_C01: &str = "generated histories (all write variants, clock advances, sweeps, stall-window bursts) under memory pressure; total_weight_used() read after every op, inside stall windows and right after release; non-trivial = the cache got more than half full and at least one put was evicted-for or rejected; distinct by hash of (config, ops)";
const RULE_C03: &str = "generated histories whose total demanded weight fits the cache (limit >= 4000, key weights <= 88, <= 12 keys); every held unexpired key must stay physically present and readable after every op; non-trivial = a key went through >= 2 incarnations AND a sweep ran after a TTL change/removal AND the sketch aged at least once";
const RULE_C04: &str = "generated histories with deletes inside stall windows (worker parked, acknowledgement cannot complete); non-trivial = a read of a deleted key was issued between delete() returning and its acknowledgement";
const RULE_C05: &str = "generated histories with stall-window bursts (unawaited writes applied later in FIFO order); store ids, charged ids and the weight total are compared after every quiescent step; non-trivial = a burst with >= 2 queued writes on the same key";
const RULE_C06: &str = "generated histories under memory pressure with access-frequency building reads; every admission decision is validated step by step from the trace against independently pre-read estimates; non-trivial = a put needed eviction and the case shows a tie, >= 2 victims, partial eviction then reject, a sample below five or a saturated estimate";
const RULE_C07: &str = "generated histories of all four put variants on keys in every life-cycle state; non-trivial = a put hits a key that was written earlier in the history";
const RULE_C08: &str = "generated histories dominated by put_or_update of all builder-accepted shapes; effects are checked when the call returns and again after the acknowledgement; non-trivial = >= 2 distinct (request shape, key state) pairs and a repeated upsert on one key";
const RULE_C09: &str = "generated histories without memory pressure, TTL 0 .. largest representable, clock moved to 1 ns before / on / after live deadlines; sweeper tick 500 us or 1 h (off); non-trivial = a read within 1 ns before a deadline AND one within 1 ns after AND a TTL change";
const RULE_C10: &str = "generated histories of TTL puts/upserts/deletes/evictions/re-puts with clock advances (one complete sweep awaited after each) and full shard rotations; non-trivial = a sweep removed a key while another TTL key survived AND a previously TTL'd key was put again";
const RULE_C11: &str = "generated histories dominated by stall-window bursts (worker parked after dequeuing the first command, up to queue-size further commands queued, then released): execution order from the trace must equal submission order, every queued command executed exactly once, the last acknowledgement completing implies all earlier ones complete, and the final state must equal the FIFO application of the burst (e.g. put then delete of one key leaves it absent); non-trivial = a burst with >= 2 queued writes on one key";
const RULE_C16: &str = "generated histories; all ten counters and the hit ratio compared with the model after every quiescent op; non-trivial = the history contains a weight decrease, an eviction or a sweep";
const RULE_C17: &str = "generated histories and configurations at arithmetic boundaries (weights 1,2,24,25,L-1,L,L+1,i64::MAX-k; TTL 0,1ns,..,largest representable; counters 1..65536; queue 1); every call under catch_unwind, panic hook on all threads, liveness probe of worker/consumer/sweeper at the end; non-trivial = a boundary argument followed by >= 5 more ops";

pub fn seq_campaigns(property: &str) -> Vec<SeqCampaign> {
    let main = |name, cases_quick, cases_thorough, nt: NtRule, rule| SeqCampaign { name, params: profile(property), policy: Policy::default(), cases_quick, cases_thorough, nt, rule };
    let probe = |name: &'static str, params: GenParams, policy: Policy| SeqCampaign { name, params, policy, cases_quick: 300, cases_thorough: 3000, nt: nt_probe, rule: "probe campaign: the trigger of one recorded known finding is generated; a failure with exactly that finding's cause tag is reported as KNOWN-FINDING, anything else as a violation" };
    match property {
        "C01" => vec![
            main("seq-main", 3000, 60_000, nt_c01, RULE_C01),
            probe("probe-F5", profile("C01"), Policy { allow_over_limit_upsert: true, ..Policy::default() }),
            SeqCampaign { name: "seq-after-overshoot", params: profile("C01"), policy: Policy { allow_over_limit_upsert: true, note_over_limit: true, ..Policy::default() }, cases_quick: 2000, cases_thorough: 30_000, nt: |s| s.max_used_permille > 1000 && (s.evictions + s.rejected_space) >= 1,
                rule: "as seq-main, but weight-raising upserts are generated too: the breach of the bound they cause (recorded finding F5) is noted - it is reported as that finding at the end of the case - and the history carries on: from negative free space every accepted put must still leave the total at or below the limit (admission evicts until the deficit and the new weight are covered) and the accounting must stay exact; non-trivial = the weight in use exceeded the limit at some point and a later put needed eviction or was refused for space" },
        ],
        "C02" => vec![main("seq-read-agreement", 3000, 50_000, nt_c02, "generated histories with many reads: every read variant is compared with the model after every write, all seven variants are applied to the same keys at quiescent points (they must agree), and multi_get iterators are consumed step by step with an awaited write to the next key between two next() calls (each next() must reflect the state at the time it is called); non-trivial = an iterator step after an intervening write and >= 3 hits")],
        "C03" => vec![main("seq-main", 2500, 50_000, nt_c03, RULE_C03)],
        "C04" => vec![
            main("seq-main", 3000, 50_000, nt_c04, RULE_C04),
            SeqCampaign { name: "seq-delete-expired", params: { let mut params = profile("C04"); params.expired_write = 14; params }, policy: Policy { allow_upsert_on_dead_entry: true, allow_put_on_expired_unswept: true, ..Policy::default() }, cases_quick: 1500, cases_thorough: 20_000, nt: |s| s.expired_unswept_writes >= 1 && s.stall_windows >= 1,
                rule: "as seq-main, plus dense writes - single ones and stall-window bursts of delete / put_or_update / put / reads - on keys that are past their time-to-live and certainly not swept (sweeper parked); puts and upserts of such keys are generated too (the recorded findings F6 / F7 are noted and do not end the case): once delete(k) has returned no read may return the value, whatever is done to the dead entry before the delete is executed; non-trivial = a write on an expired-unswept key and a stall window" },
        ],
        "C05" => vec![main("seq-main", 3000, 50_000, nt_c05, RULE_C05)],
        "C06" => vec![
            main("seq-main", 3000, 60_000, nt_c06, RULE_C06),
            SeqCampaign { name: "seq-overcommitted", params: profile("C06"), policy: Policy { allow_over_limit_upsert: true, ..Policy::default() }, cases_quick: 2000, cases_thorough: 30_000, nt: |s| s.max_used_permille > 1000 && (s.evictions + s.rejected_space) >= 1,
                rule: "as seq-main, but weight-raising upserts are generated too, so the cache gets over-committed through the recorded finding F5 (noted, does not end the case): with negative free space admission must still evict exactly until enough space results and accept only then; non-trivial = the weight in use exceeded the limit at some point and a later put needed eviction or was refused for space" },
            SeqCampaign { name: "seq-contended", params: profile("C06-contended"), policy: Policy::default(), cases_quick: 250, cases_thorough: 4000, nt: |s| s.evictions + s.rejected_space >= 1,
                rule: "as seq-main, but 2-5 background threads hammer reads of three dedicated keys with saturated estimates for the whole case (pool, hand-over channel, access consumer and the sketch's lock are busy while the worker decides); the estimates of all other keys are frozen (read while the readers are paused and the consumer idle; 4 Mi counters so that no ageing happens), so every sampled and incoming estimate seen by admission must still equal the pre-read one; non-trivial = a put needed eviction or was refused for space" },
        ],
        "C07" => vec![
            main("seq-main", 4000, 80_000, nt_c07, RULE_C07),
            probe("probe-F6", profile("C07"), Policy { allow_put_on_expired_unswept: true, ..Policy::default() }),
        ],
        "C08" => vec![
            main("seq-main", 4000, 80_000, nt_c08, RULE_C08),
            probe("probe-F7", profile("C08"), Policy { allow_upsert_on_dead_entry: true, ..Policy::default() }),
        ],
        "C09" => vec![main("seq-main", 4000, 80_000, nt_c09, RULE_C09), SeqCampaign { name: "seq-upsert-expired", params: { let mut params = profile("C09"); params.expired_write = 12; params }, policy: Policy { allow_upsert_on_dead_entry: true, ..Policy::default() }, cases_quick: 2000, cases_thorough: 30_000, nt: |s| s.upserts_in_place >= 2 && s.swept_keys >= 1,
                rule: "as seq-main, but put_or_update is also generated for keys that are past their time-to-live and not yet swept, or deleted with the delete still queued (the loss of such an upsert, known finding F7 of C08, is noted and does not end the case): an upsert that gives such a key a new time-to-live makes it readable again until the new deadline, and the sweep of the old deadline must not remove it; non-trivial = >= 2 in-place upserts and a sweep that removed a key" }],
        "C10" => vec![
            main("seq-main", 1500, 30_000, nt_c10, RULE_C10),
            SeqCampaign { name: "seq-mass-expiry", params: profile("C10-mass-expiry"), policy: Policy::default(), cases_quick: 300, cases_thorough: 4000, nt: |s| s.swept_keys >= 33,
                rule: "histories that fill the cache with 10-70 light TTL keys per step (up to ~130 keys, 2 or 4 expiry shards), then advance the clock and rotate through the shards: dozens of keys expire in one sweep; same oracles as seq-main; non-trivial = at least 33 keys were removed by sweeps" },
            SeqCampaign { name: "seq-reput-expired", params: { let mut params = profile("C10"); params.expired_write = 12; params }, policy: Policy { allow_put_on_expired_unswept: true, ..Policy::default() }, cases_quick: 1500, cases_thorough: 20_000, nt: |s| s.swept_keys >= 1 && s.puts_on_used_key >= 1,
                rule: "as seq-main, but puts of keys that are past their time-to-live and not yet swept are generated too (their refusal, known finding F6 of C07, is noted and does not end the case): a re-put that is accepted must survive the sweep of the old incarnation; non-trivial = a sweep removed a key and a previously written key was put again" },
            SeqCampaign { name: "seq-upsert-expired", params: { let mut params = profile("C09"); params.expired_write = 12; params }, policy: Policy { allow_upsert_on_dead_entry: true, ..Policy::default() }, cases_quick: 2000, cases_thorough: 30_000, nt: |s| s.upserts_in_place >= 2 && s.swept_keys >= 1,
                rule: "as seq-main, but put_or_update is also generated for keys that are past their time-to-live and not yet swept, or deleted with the delete still queued (the loss of such an upsert, known finding F7 of C08, is noted and does not end the case): an upsert that gives such a key a new time-to-live makes it readable again until the new deadline, and the sweep of the old deadline must not remove it; non-trivial = >= 2 in-place upserts and a sweep that removed a key" },
        ],
        "C11" => vec![main("seq-bursts", 3000, 50_000, nt_c11, RULE_C11)],
        "C12" => vec![SeqCampaign { name: "seq-ack-effect", params: profile("C11"), policy: Policy::default(), cases_quick: 2000, cases_thorough: 30_000, nt: nt_c11,
            rule: "generated histories dominated by stall-window bursts (as seq-bursts of C11), judged for the acknowledgement clauses only: the status an acknowledgement reads must be the status the command ended with on the worker, a write acknowledged Accepted must have been executed by the worker, and an explicit weight of an accepted put_or_update must be the key's charged weight as soon as the acknowledgement has resolved; non-trivial = a burst with >= 2 queued writes on one key" }],
        "C13" => vec![SeqCampaign { name: "seq-after-shutdown", params: profile("C05"), policy: Policy::default(), cases_quick: 1500, cases_thorough: 20_000, nt: |s| s.accepted_puts >= 1 && s.writes >= 3,
            rule: "generated histories; at the end shutdown() is called twice, then all six write entry points must return Err and all seven read variants must return absent / empty for every key the history wrote (and one it never wrote); non-trivial = the history had an accepted put and >= 3 writes before the shutdown" }],
        "C15" => vec![SeqCampaign { name: "seq-access-accounting", params: { let mut params = profile("C02"); params.prelude = 4; params }, policy: Policy::default(), cases_quick: 3000, cases_thorough: 40_000, nt: |s| s.hits >= 5 && s.reads > s.hits,
            rule: "generated read-heavy histories (all seven read variants, multi-key reads with duplicate and absent keys, pool 1-3, buffer 1-8) on one thread; in half of the cases the same thread has built and read another cache with a different (larger) pool before, which in half of those stays alive beside the cache under test: after every op CacheHits == records buffered in the pool + AccessAdded + AccessDropped; non-trivial = >= 5 hits and at least one miss" }],
        "C16" => vec![main("seq-main", 3000, 60_000, nt_c16, RULE_C16)],
        "C17" => vec![
            main("seq-main", 4000, 80_000, nt_c17, RULE_C17),
            probe("probe-F8", profile("C17"), Policy { allow_ttl_overflow: true, ..Policy::default() }),
            probe("probe-F9", profile("C17"), Policy { allow_ttl_toggle_small_weight: true, ..Policy::default() }),
            probe("probe-F5", profile("C17"), Policy { allow_over_limit_upsert: true, ..Policy::default() }),
        ],
        _ => Vec::new(),
    }
}

/// Campaigns of a property plus, for the model-based properties, the scale variant of its main campaign.
pub fn seq_campaigns_with_scale(property: &str) -> Vec<SeqCampaign> {
    let mut campaigns = seq_campaigns(property);
    if matches!(property, "C01" | "C03" | "C05" | "C06" | "C07" | "C08" | "C10" | "C16") {
        if let Some(main) = campaigns.first() {
            let scale = SeqCampaign { name: "seq-scale", params: scaled(main.params.clone()), policy: Policy::default(), cases_quick: 400, cases_thorough: 6000, nt: main.nt, rule: RULE_SCALE };
            campaigns.insert(1, scale);
        }
    }
    campaigns
}

pub fn seq_case_result(case: &SeqCase, policy: &Policy, nt: NtRule) -> CaseResult { seq_case_result_focus(case, policy, nt, "") }

pub fn seq_case_result_focus(case: &SeqCase, policy: &Policy, nt: NtRule, focus: &str) -> CaseResult {
    let outcome = run_seq_case_focus(case, policy, focus);
    CaseResult {
        // a deferred failure of another property (noted at the end of the case) does not make the case trivial
        // (a breach noted under `note_over_limit`, reported as the known finding F5 at the end of the case, does not make it trivial either)
        nontrivial: nt(&outcome.stats) && outcome.failure.as_ref().map(|failure| (!focus.is_empty() && !failure.concerns(focus)) || (policy.note_over_limit && matches!(failure.tag.as_str(), "C01/quiescent/out-of-bounds" | "C01/release/out-of-bounds"))).unwrap_or(true),
        classes: classes_of(&outcome.stats),
        suppressed: outcome.stats.suppressed.clone(),
        failure: outcome.failure,
    }
}

/// Runs one SEQ campaign; on a violation writes the replay file.
pub fn run_seq_campaign(context: &CheckContext, campaign: &SeqCampaign) -> (CampaignReport, Option<Violation>) {
    let cases = if context.tier == "thorough" { campaign.cases_thorough } else { campaign.cases_quick };
    let policy = campaign.policy.clone();
    let nt = campaign.nt;
    let focus = context.property.clone();
    let run_case: Arc<dyn Fn(&SeqCase) -> CaseResult + Send + Sync> = Arc::new(move |case: &SeqCase| seq_case_result_focus(case, &policy, nt, &focus));
    // the thorough tier also explores larger cases: three times as many operations, a universe of up to 12 keys
    let mut params = campaign.params.clone();
    if context.tier == "thorough" { params.max_ops = (params.max_ops * 3).min(240); params.max_key = params.max_key.max(12); }
    let (report, found) = run_campaign(context, campaign.name, "SEQ", campaign.rule, cases, Arc::new(move || seq_case_strategy(&params)), run_case);
    let violation = found.map(|(case, failure)| {
        let replay = Replay {
            property: context.property.clone(),
            engine: "SEQ".to_string(),
            campaign: campaign.name.to_string(),
            seed: context.seed,
            case: serde_json::to_value(&case).unwrap(),
            policy: serde_json::to_value(&campaign.policy).unwrap(),
            failure: Some(failure.clone()),
            note: "shrunk by proptest; re-run with: ./run <property> --replay <this file>".to_string(),
        };
        Violation { replay_path: write_replay(&replay), failure }
    });
    (report, violation)
}

pub fn replay_seq(replay: &Replay) -> Result<Option<Failure>, String> {
    let case: SeqCase = decode_case(&replay.case)?;
    let policy: Policy = serde_json::from_value(replay.policy.clone()).unwrap_or_default();
    Ok(run_seq_case(&case, &policy).failure)
}

pub fn extra_none() -> Value { json!({}) }
