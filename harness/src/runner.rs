//! Campaign runner: drives a proptest strategy on N worker threads with fixed seeds, counts distinct
//! non-trivial cases, shrinks the first relevant failure, writes replay files and evidence.

use std::collections::{BTreeMap, HashSet};
use std::fmt::Debug;
use std::sync::atomic::{AtomicBool, AtomicU64, Ordering};
use std::sync::{Arc, Mutex};
use std::time::Instant;

use proptest::strategy::BoxedStrategy;
use proptest::test_runner::{Config, RngSeed, TestCaseError, TestError, TestRunner};
use serde::{de::DeserializeOwned, Deserialize, Serialize};
use serde_json::{json, Value};

use crate::base::{fnv1a, splitmix};
use crate::model::Failure;

/// Result of running one case.
#[derive(Clone, Debug, Default)]
pub struct CaseResult {
    pub failure: Option<Failure>,
    pub nontrivial: bool,
    /// class name -> 1 if the case is in the class (summed into the histogram)
    pub classes: BTreeMap<String, u64>,
    pub suppressed: BTreeMap<String, u32>,
}

#[derive(Clone, Debug, Serialize, Deserialize)]
pub struct KnownFinding {
    pub id: String,
    pub property: String,
    pub tags: Vec<String>,
    /// other properties whose checks may meet the same finding
    #[serde(default)]
    pub also: Vec<String>,
    pub what: String,
    pub witness: Value,
    #[serde(default)]
    pub witness_case: Option<Value>,
    /// "open" or "fixed: <commit>"
    pub status: String,
}

pub fn load_known_findings() -> Vec<KnownFinding> {
    let path = verif_dir().join("known_findings.json");
    match std::fs::read_to_string(&path) {
        Ok(text) => serde_json::from_str::<Value>(&text).ok()
            .and_then(|value| value.get("findings").cloned())
            .and_then(|findings| serde_json::from_value(findings).ok())
            .unwrap_or_default(),
        Err(_) => Vec::new(),
    }
}

pub fn verif_dir() -> std::path::PathBuf {
    std::env::var("VERIF_DIR").map(std::path::PathBuf::from).unwrap_or_else(|_| std::path::PathBuf::from("/verif"))
}

/// How a check treats a failure produced by an oracle.
#[derive(Clone, Debug, PartialEq, Eq)]
pub enum Relevance {
    /// a violation of the property under check
    Violation,
    /// matches an open known finding of the property under check
    Known(String),
    /// an oracle of another property failed: noted, not reported by this check
    Other,
    /// a wait hit the watchdog in a check that is not about progress: inconclusive
    Inconclusive,
}

#[derive(Clone)]
pub struct CheckContext {
    pub property: String,
    pub tier: String,
    pub seed: u64,
    pub workers: usize,
    pub known: Vec<KnownFinding>,
    /// whether a STALL failure (something never completed) is a violation of this property
    pub stall_is_violation: bool,
}

impl CheckContext {
    pub fn relevance(&self, failure: &Failure) -> Relevance {
        if failure.property == "INCONCLUSIVE" { return Relevance::Inconclusive; }
        if failure.property == "STALL" {
            // a sweeper that completes no sweep for the whole watchdog period (20 s at a tick of well under a millisecond) is dead
            // or blocked: for C10 (every expired key is eventually removed) that is the violation itself
            return if self.stall_is_violation || (self.property == "C10" && failure.tag == "stall/sweeper") { Relevance::Violation } else { Relevance::Inconclusive };
        }
        if !failure.concerns(&self.property) && std::env::var("VERIF_REPORT_ANY").is_err() { return Relevance::Other; }
        for finding in &self.known {
            if finding.status == "open" && (finding.property == self.property || finding.also.contains(&self.property)) && finding.tags.contains(&failure.tag) {
                return Relevance::Known(finding.id.clone());
            }
        }
        Relevance::Violation
    }
}

#[derive(Clone, Debug, Default, Serialize)]
pub struct CampaignReport {
    pub name: String,
    pub engine: String,
    pub evaluations: u64,
    pub distinct_nontrivial: u64,
    pub rule: String,
    pub classes: BTreeMap<String, u64>,
    pub suppressed_known_finding_triggers: BTreeMap<String, u64>,
    pub other_property_failures: BTreeMap<String, u64>,
    pub known_findings_hit: BTreeMap<String, u64>,
    pub inconclusive: u64,
    pub samples: Vec<Value>,
    pub violation: Option<Value>,
    pub wall_s: f64,
    pub exhaustive: bool,
}

pub struct Violation {
    pub failure: Failure,
    pub replay_path: String,
}

struct Shared {
    stop: AtomicBool,
    evaluations: AtomicU64,
    inconclusive: AtomicU64,
    nontrivial: Mutex<HashSet<u64>>,
    classes: Mutex<BTreeMap<String, u64>>,
    suppressed: Mutex<BTreeMap<String, u64>>,
    other: Mutex<BTreeMap<String, u64>>,
    known_hit: Mutex<BTreeMap<String, u64>>,
    samples: Mutex<Vec<Value>>,
}

pub fn case_hash<C: Serialize>(case: &C) -> u64 { fnv1a(serde_json::to_string(case).unwrap_or_default().as_bytes()) }

/// Runs `cases` generated cases of `strategy` on `context.workers` threads. Returns the report and, if a relevant
/// failure was found, the shrunk failing case.
pub fn run_campaign<C>(
    context: &CheckContext,
    name: &str,
    engine: &str,
    rule: &str,
    cases: u64,
    strategy: Arc<dyn Fn() -> BoxedStrategy<C> + Send + Sync>,
    run_case: Arc<dyn Fn(&C) -> CaseResult + Send + Sync>,
) -> (CampaignReport, Option<(C, Failure)>)
where C: Clone + Debug + Serialize + Send + Sync + 'static {
    run_campaign_with(context, name, engine, rule, cases, strategy, run_case, true, context.workers)
}

#[allow(clippy::too_many_arguments)]
pub fn run_campaign_with<C>(
    context: &CheckContext,
    name: &str,
    engine: &str,
    rule: &str,
    cases: u64,
    strategy: Arc<dyn Fn() -> BoxedStrategy<C> + Send + Sync>,
    run_case: Arc<dyn Fn(&C) -> CaseResult + Send + Sync>,
    shrink: bool,
    workers: usize,
) -> (CampaignReport, Option<(C, Failure)>)
where C: Clone + Debug + Serialize + Send + Sync + 'static {
    let started = Instant::now();
    let shared = Arc::new(Shared {
        stop: AtomicBool::new(false),
        evaluations: AtomicU64::new(0),
        inconclusive: AtomicU64::new(0),
        nontrivial: Mutex::new(HashSet::new()),
        classes: Mutex::new(BTreeMap::new()),
        suppressed: Mutex::new(BTreeMap::new()),
        other: Mutex::new(BTreeMap::new()),
        known_hit: Mutex::new(BTreeMap::new()),
        samples: Mutex::new(Vec::new()),
    });
    let workers = workers.max(1).min(cases.max(1) as usize);
    let per_worker = (cases + workers as u64 - 1) / workers as u64;
    let found: Arc<Mutex<Vec<(usize, C, Failure)>>> = Arc::new(Mutex::new(Vec::new()));
    let name_hash = fnv1a(name.as_bytes());
    std::thread::scope(|scope| {
        for worker in 0..workers {
            let shared = shared.clone();
            let found = found.clone();
            let strategy_factory = strategy.clone();
            let run_case = run_case.clone();
            let context = context.clone();
            let name_for_log = name.to_string();
            scope.spawn(move || {
                crate::base::mark_harness_thread();
                let strategy = strategy_factory();
                let mut state = context.seed ^ name_hash.rotate_left(17) ^ ((worker as u64 + 1) << 48);
                let seed = splitmix(&mut state);
                let mut runner = TestRunner::new(Config {
                    cases: per_worker as u32,
                    rng_seed: RngSeed::Fixed(seed),
                    failure_persistence: None,
                    max_shrink_iters: 4000,
                    ..Config::default()
                });
                // once a relevant failure is seen the closure is re-run by the shrinker: stop counting then
                let failing = std::cell::Cell::new(false);
                let failing_tag = std::cell::RefCell::new(String::new());
                // the case and failure as first observed: reported as they are if the shrunk case does not fail again (timing)
                let first_observed: std::cell::RefCell<Option<(C, Failure)>> = std::cell::RefCell::new(None);
                let result = runner.run(&strategy, |case| {
                    if !failing.get() && shared.stop.load(Ordering::Acquire) { return Ok(()); }
                    let outcome = run_case(&case);
                    if failing.get() {
                        // shrinking: keep the case only if it fails for the same cause
                        return match &outcome.failure {
                            Some(failure) if failure.tag == *failing_tag.borrow() => Err(TestCaseError::fail(failure.tag.clone())),
                            _ => Ok(()),
                        };
                    }
                    shared.evaluations.fetch_add(1, Ordering::AcqRel);
                    for (class, count) in &outcome.classes { *shared.classes.lock().unwrap().entry(class.clone()).or_insert(0) += count; }
                    for (finding, count) in &outcome.suppressed { *shared.suppressed.lock().unwrap().entry(finding.clone()).or_insert(0) += *count as u64; }
                    if outcome.nontrivial {
                        let fresh = shared.nontrivial.lock().unwrap().insert(case_hash(&case));
                        if fresh {
                            let mut samples = shared.samples.lock().unwrap();
                            if samples.len() < 3 { samples.push(serde_json::to_value(&case).unwrap_or(Value::Null)); }
                        }
                    }
                    if let Some(failure) = &outcome.failure {
                        match context.relevance(failure) {
                            Relevance::Violation if failure.property == "STALL" || !shrink => {
                                // a blocked case cannot be re-run cheaply (its threads are leaked) and timing-dependent
                                // concurrent failures are reported with the history that failed: no shrinking
                                shared.stop.store(true, Ordering::Release);
                                found.lock().unwrap().push((worker, case.clone(), failure.clone()));
                                return Ok(());
                            }
                            Relevance::Violation => {
                                failing.set(true);
                                *first_observed.borrow_mut() = Some((case.clone(), failure.clone()));
                                *failing_tag.borrow_mut() = failure.tag.clone();
                                shared.stop.store(true, Ordering::Release);
                                return Err(TestCaseError::fail(failure.tag.clone()));
                            }
                            Relevance::Known(id) => { *shared.known_hit.lock().unwrap().entry(id).or_insert(0) += 1; }
                            Relevance::Other => { *shared.other.lock().unwrap().entry(failure.tag.clone()).or_insert(0) += 1; }
                            Relevance::Inconclusive => {
                                // something did not complete within the watchdog in a check that is not about progress: the
                                // verdict is "inconclusive"; every further case would wait for the watchdog again, so stop here
                                if shared.inconclusive.fetch_add(1, Ordering::AcqRel) == 0 { eprintln!("[{}] inconclusive case: {} ({})", name_for_log, failure.message, failure.tag); }
                                shared.stop.store(true, Ordering::Release);
                            }
                        }
                    }
                    Ok(())
                });
                if let Err(TestError::Fail(_, minimal)) = result {
                    // re-run the minimal case to obtain the failure it produces
                    let mut failure = None;
                    for _ in 0..5 {
                        let outcome = run_case(&minimal);
                        if let Some(found_failure) = outcome.failure {
                            if found_failure.tag == *failing_tag.borrow() { failure = Some(found_failure); break; }
                        }
                    }
                    match (failure, first_observed.borrow_mut().take()) {
                        (Some(failure), _) => found.lock().unwrap().push((worker, minimal, failure)),
                        // timing dependent: report the case and the failure exactly as first observed (not shrunk)
                        (None, Some((case, mut failure))) => { failure.message = format!("{} [observed once; the case did not fail again when re-run during shrinking: timing dependent]", failure.message); found.lock().unwrap().push((worker, case, failure)); }
                        (None, None) => found.lock().unwrap().push((worker, minimal, Failure::new(&context.property, &failing_tag.borrow(), "the shrunk case did not fail again when re-run (timing dependent); see the tag".to_string()))),
                    }
                }
            });
        }
    });
    let mut found = std::mem::take(&mut *found.lock().unwrap());
    found.sort_by_key(|(worker, _, _)| *worker);
    let first = found.into_iter().next().map(|(_, case, failure)| (case, failure));
    let report = CampaignReport {
        name: name.to_string(),
        engine: engine.to_string(),
        evaluations: shared.evaluations.load(Ordering::Acquire),
        distinct_nontrivial: shared.nontrivial.lock().unwrap().len() as u64,
        rule: rule.to_string(),
        classes: shared.classes.lock().unwrap().clone(),
        suppressed_known_finding_triggers: shared.suppressed.lock().unwrap().clone(),
        other_property_failures: shared.other.lock().unwrap().clone(),
        known_findings_hit: shared.known_hit.lock().unwrap().clone(),
        inconclusive: shared.inconclusive.load(Ordering::Acquire),
        samples: shared.samples.lock().unwrap().clone(),
        violation: first.as_ref().map(|(case, failure)| json!({"case": case, "failure": failure})),
        wall_s: started.elapsed().as_secs_f64(),
        exhaustive: false,
    };
    (report, first)
}

/// Replay file: everything needed to re-run one case without the generator.
#[derive(Clone, Debug, Serialize, Deserialize)]
pub struct Replay {
    pub property: String,
    pub engine: String,
    pub campaign: String,
    pub seed: u64,
    pub case: Value,
    pub policy: Value,
    pub failure: Option<Failure>,
    pub note: String,
}

pub fn write_replay(replay: &Replay) -> String {
    let dir = verif_dir().join("replays").join(&replay.property);
    let _ = std::fs::create_dir_all(&dir);
    let text = serde_json::to_string_pretty(replay).unwrap();
    let path = dir.join(format!("{}-{:016x}.json", replay.campaign, fnv1a(serde_json::to_string(&replay.case).unwrap_or_default().as_bytes())));
    let _ = std::fs::write(&path, text);
    path.to_string_lossy().to_string()
}

pub fn read_replay(path: &str) -> Result<Replay, String> {
    let text = std::fs::read_to_string(path).map_err(|error| format!("cannot read {}: {}", path, error))?;
    serde_json::from_str(&text).map_err(|error| format!("cannot parse {}: {}", path, error))
}

pub fn decode_case<C: DeserializeOwned>(value: &Value) -> Result<C, String> {
    serde_json::from_value(value.clone()).map_err(|error| format!("cannot decode case: {}", error))
}

/// Evidence file per EVIDENCE.schema.json.
pub fn write_evidence(context: &CheckContext, reports: &[CampaignReport], violations: u64, assumptions: &[String], wall_s: f64, extra: Value) {
    let evaluations: u64 = reports.iter().map(|report| report.evaluations).sum();
    let distinct: u64 = reports.iter().map(|report| report.distinct_nontrivial).sum();
    let mut samples: Vec<Value> = Vec::new();
    for report in reports {
        for sample in report.samples.iter().take(2) { samples.push(json!({"campaign": report.name, "case": sample})); }
    }
    if samples.is_empty() { samples.push(json!("no non-trivial case was generated in this run")); }
    let rule = reports.iter().map(|report| format!("[{}] {}", report.name, report.rule)).collect::<Vec<_>>().join(" ;; ");
    let exhaustive = !reports.is_empty() && reports.iter().all(|report| report.exhaustive);
    let evidence = json!({
        "property_id": context.property,
        "tier": context.tier,
        "seed": context.seed,
        "level": "exploration",
        "coverage": {
            "evaluations": evaluations,
            "distinct_nontrivial": distinct,
            "rule": rule,
            "samples": samples,
            "exhaustive": exhaustive,
            "campaigns": reports,
            "extra": extra,
        },
        "assumptions": assumptions,
        "wall_s": wall_s,
        "violations": violations,
    });
    let dir = verif_dir().join("evidence");
    let _ = std::fs::create_dir_all(&dir);
    let path = dir.join(format!("{}.json", context.property));
    let _ = std::fs::write(path, serde_json::to_string_pretty(&evidence).unwrap());
}
