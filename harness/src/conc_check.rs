// Included into conc.rs: pure history checkers, generators, case runner.

use crate::ensure;
use crate::model::Check;
use crate::runner::CaseResult;

/// Physical consistency at quiescence (C05): ids(store) == ids(charged weights) with matching keys, and the
/// weight total equals the sum of the charges. No model needed.
pub fn check_snapshot_consistency(snapshot: &Snapshot<u64>) -> Check {
    let mut store: BTreeMap<u64, (u64, bool)> = BTreeMap::new();
    for entry in &snapshot.store { store.insert(entry.id, (entry.key, entry.soft_deleted)); }
    let mut sum: i128 = 0;
    let mut charged: BTreeMap<u64, u64> = BTreeMap::new();
    for entry in &snapshot.weights {
        ensure!(charged.insert(entry.id, entry.key).is_none(), "C05", "C05/duplicate-weight-id", "weight entry id {} twice", entry.id);
        sum += entry.weight as i128;
        ensure!(entry.weight > 0, "C05", "C05/nonpositive-charge", "id {} (key {}) is charged {}", entry.id, entry.key, entry.weight);
    }
    for (id, (key, _)) in &store {
        match charged.get(id) {
            None => return Err(Failure::new("C05", "C05/held-key-uncharged", format!("key {} (id {}) is held by the store but no weight is charged for it (charged: {:?})", key, id, charged))),
            Some(charged_key) => ensure!(charged_key == key, "C05", "C05/charge-for-other-key", "id {} is held for key {} but charged for key {}", id, key, charged_key),
        }
    }
    for (id, key) in &charged {
        ensure!(store.contains_key(id), "C05", "C05/charge-without-entry", "a weight is charged under id {} for key {} but the store holds no such entry: the capacity can never be released (store: {:?})", id, key, store);
    }
    ensure!(sum == snapshot.weight_used as i128, "C05", "C05/sum-mismatch", "total weight used {} != sum of charged weights {}", snapshot.weight_used, sum);
    // at quiescence every delete has been applied: an entry that is still marked deleted reads as absent for ever, yet
    // it refuses every put of its key (KeyAlreadyExists) and keeps its weight
    for entry in &snapshot.store {
        if entry.soft_deleted {
            return Err(Failure::new("C04", "C04/conc/marked-deleted-at-quiescence", format!("key {} (id {}) is still held and marked deleted although every command has been acknowledged: it reads as absent, cannot be put again and keeps its weight", entry.key, entry.id)).with_also(vec!["C07".to_string(), "C05".to_string()]));
        }
    }
    ensure!(snapshot.weight_used >= 0 && snapshot.weight_used <= snapshot.max_weight, "C01", "C01/conc-quiescent/out-of-bounds", "total weight used {} outside [0, {}] at quiescence", snapshot.weight_used, snapshot.max_weight);
    Ok(())
}

/// Expiry index against the held entries at quiescence (entries of ids that are gone may linger: harmless).
/// An inconsistency on a key whose index-changing writes (TTL puts, TTL-setting / TTL-removing upserts) overlapped in time
/// is the recorded finding F10 (index maintenance is not atomic with the store update); anything else is unexplained.
pub fn check_index(history: &History, snapshot: &Snapshot<u64>) -> Check {
    let writes = writes_of(history);
    let racing = |key: u64| -> bool {
        let touching: Vec<&WriteView> = writes.iter().filter(|write| write.key as u64 == key && !write.err && (write.ttl_ns.is_some() || write.removes_ttl || write.kind == "put" || write.kind == "delete")).collect();
        for (index, first) in touching.iter().enumerate() {
            for second in touching.iter().skip(index + 1) {
                if !(first.ttl_ns.is_some() || first.removes_ttl || second.ttl_ns.is_some() || second.removes_ttl) { continue; }
                let first_end = first.rec.end.max(first.seen_done);
                let second_end = second.rec.end.max(second.seen_done);
                if first.rec.start <= second_end && second.rec.start <= first_end { return true; }
            }
        }
        false
    };
    let mut index: HashMap<u64, Vec<(std::time::SystemTime, usize)>> = HashMap::new();
    for entry in &snapshot.ttl { index.entry(entry.id).or_default().push((entry.expire_after, entry.shard)); }
    for entry in &snapshot.store {
        let problem = match (entry.expire_after, index.get(&entry.id)) {
            (Some(expiry), Some(entries)) if entries.len() == 1 && entries[0].0 == expiry => None,
            (Some(expiry), Some(entries)) => Some(("stale", format!("key {} (id {}) expires at {:?} but the expiry index holds {:?} for it: it will be swept at the wrong time", entry.key, entry.id, expiry, entries), vec!["C09".to_string(), "C03".to_string()])),
            (Some(expiry), None) => Some(("missing", format!("key {} (id {}) expires at {:?} but has no entry in the expiry index: it can never be swept", entry.key, entry.id, expiry), vec![])),
            (None, Some(entries)) => Some(("leftover", format!("key {} (id {}) has no time-to-live but is in the expiry index ({:?}): a sweep will remove it", entry.key, entry.id, entries), vec!["C09".to_string(), "C03".to_string()])),
            (None, None) => None,
        };
        if let Some((kind, message, also)) = problem {
            let tag = if racing(entry.key) { "C10/conc/index-race".to_string() } else { format!("C10/conc/index-{}", kind) };
            return Err(Failure::new("C10", &tag, message).with_also(also));
        }
    }
    Ok(())
}

struct WriteView<'a> {
    rec: &'a Rec,
    key: u8,
    kind: &'static str,
    err: bool,
    status: Option<St>,
    seen_done: u64,
    in_place: Option<bool>,
    ttl_ns: Option<u128>,
    removes_ttl: bool,
}

fn writes_of(history: &History) -> Vec<WriteView<'_>> {
    history.recs.iter().filter_map(|rec| match &rec.outcome {
        Outcome::Write { key, kind, err, status, seen_done, in_place, ttl_ns, removes_ttl, .. } => Some(WriteView { rec, key: *key, kind, err: *err, status: *status, seen_done: *seen_done, in_place: *in_place, ttl_ns: *ttl_ns, removes_ttl: *removes_ttl }),
        _ => None,
    }).collect()
}

fn token_of_write(rec: &Rec) -> Option<u64> { if let Outcome::Write { token, .. } = &rec.outcome { *token } else { None } }

/// C02: a returned value was written to that key by a write that began before the read ended, and no later
/// overwrite or delete had completed before the read began. One-directional: None is always allowed.
pub fn check_c02(history: &History, start_clock: u64, as_c02: bool) -> Check {
    let writes = writes_of(history);
    let mut by_token: HashMap<u64, usize> = HashMap::new();
    for (index, write) in writes.iter().enumerate() { if let Some(token) = token_of_write(write.rec) { by_token.insert(token, index); } }
    let mut by_key: BTreeMap<u8, Vec<usize>> = BTreeMap::new();
    for (index, write) in writes.iter().enumerate() { by_key.entry(write.key).or_default().push(index); }
    let clock_low = |stamp: u64| history.clock_log.iter().rev().find(|(at, _)| *at <= stamp).map(|(_, value)| *value).unwrap_or(start_clock);
    let clock_high = |stamp: u64| history.clock_log.iter().find(|(at, _)| *at > stamp).map(|(_, value)| *value).unwrap_or_else(|| history.clock_log.last().map(|(_, value)| *value).unwrap_or(start_clock));
    for rec in &history.recs {
        let (keys, values): (Vec<u8>, Vec<Option<u64>>) = match &rec.outcome {
            Outcome::Read { keys, values } => (keys.clone(), values.clone()),
            Outcome::HoldRef { key, value } => (vec![*key], vec![*value]),
            _ => continue,
        };
        if history.shutdown_called && values.len() < keys.len() { continue; }
        ensure!(keys.len() == values.len(), "C02", "C02/shape", "a multi-key read of {:?} returned {} results", keys, values.len());
        for (k, value) in keys.iter().zip(values.iter()) {
            let Some(value) = value else { continue };
            ensure!(token_key(*value) == *k, "C02", "C02/foreign-value", "thread {} op {}: a read of key {} returned {:#x}, a value written to key {}", rec.thread, rec.index, k, value, token_key(*value));
            let Some(write_index) = by_token.get(value) else {
                return Err(Failure::new("C02", "C02/invented-value", format!("thread {} op {}: a read of key {} returned {:#x}, which nobody wrote", rec.thread, rec.index, k, value)));
            };
            let write = &writes[*write_index];
            ensure!(write.rec.start < rec.end, "C02", "C02/value-from-the-future", "a read of key {} (ended at {}) returned the value of a write that began at {}", k, rec.end, write.rec.start);
            ensure!(!write.err, "C02", "C02/value-of-refused-write", "a read of key {} returned {:#x} but that write returned Err", k, value);
            if let Some(status) = write.status {
                if write.in_place != Some(true) {
                    ensure!(status == St::Accepted, "C02", "C02/value-of-refused-write", "a read of key {} returned {:#x} but the {} that wrote it was acknowledged {:?}", k, value, write.kind, status);
                }
            }
            // when was the write certainly applied?
            let visible_by = if write.in_place == Some(true) { write.rec.end } else if write.seen_done > 0 { write.seen_done } else { u64::MAX };
            if visible_by != u64::MAX {
                for other_index in &by_key[k] {
                    let other = &writes[*other_index];
                    if other_index == write_index || other.err || other.rec.start <= visible_by { continue; }
                    let completed_before_read = match other.kind {
                        "delete" => other.rec.end < rec.start,
                        "upsert" if other.in_place == Some(true) => other.rec.end < rec.start,
                        _ => other.status == Some(St::Accepted) && other.seen_done > 0 && other.seen_done < rec.start,
                    };
                    if completed_before_read {
                        let (tag, what) = if other.kind == "delete" { if as_c02 { ("C02/deleted-value", "C02") } else { ("C04/read-after-delete", "C04") } } else { ("C02/stale-value", "C02") };
                        return Err(Failure::new(what, tag, format!(
                            "thread {} op {}: a read of key {} (began at stamp {}) returned {:#x}, written by thread {} op {} ({} complete by stamp {}); but thread {} op {} ({}) began at stamp {} after that write was complete and had itself completed at stamp {} before the read began",
                            rec.thread, rec.index, k, rec.start, value, write.rec.thread, write.rec.index, write.kind, visible_by, other.rec.thread, other.rec.index, other.kind, other.rec.start, if other.kind == "delete" || other.in_place == Some(true) { other.rec.end } else { other.seen_done })));
                    }
                }
                if let Some(ttl_ns) = write.ttl_ns {
                    let latest_deadline = clock_high(visible_by) as u128 + ttl_ns;
                    ensure!(clock_low(rec.start) as u128 <= latest_deadline, "C09", "C09/served-expired", "a read of key {} returned {:#x} although the clock ({}) was past the latest possible deadline {} of that write", k, value, clock_low(rec.start), latest_deadline);
                }
            }
        }
    }
    Ok(())
}

pub fn check_c01(history: &History, limit: i64) -> Check {
    if history.monitor_samples > 0 {
        ensure!(history.monitor_min >= 0, "C01", "C01/monitor/negative", "the monitor observed total_weight_used() = {} < 0 ({} samples)", history.monitor_min, history.monitor_samples);
        ensure!(history.monitor_max <= limit, "C01", "C01/monitor/over-limit", "the monitor observed total_weight_used() = {} > limit {} ({} samples)", history.monitor_max, limit, history.monitor_samples);
    }
    Ok(())
}

/// C11 on the trace: exactly once, one at a time, in submission order; acknowledgement order per thread.
pub fn check_c11(history: &History) -> Check {
    let mut position: HashMap<usize, usize> = HashMap::new();
    let mut executed: Vec<(usize, St, u64, u64, u64)> = Vec::new();
    let mut drained: BTreeSet<usize> = BTreeSet::new();
    for event in &history.trace {
        match event {
            TraceEvent::Executed { ack, status, begin, end, thread, .. } => {
                ensure!(position.insert(*ack, executed.len()).is_none(), "C11", "C11/executed-twice", "a queued command was executed twice (acknowledgement {:#x})", ack);
                executed.push((*ack, *status, *begin, *end, *thread));
            }
            TraceEvent::Drained { ack, .. } => { drained.insert(*ack); }
            _ => {}
        }
    }
    for pair in executed.windows(2) {
        ensure!(pair[0].3 < pair[1].2, "C11", "C11/overlapping-execution", "two commands were executed at the same time (stamps {}..{} and {}..{})", pair[0].2, pair[0].3, pair[1].2, pair[1].3);
        ensure!(pair[0].4 == pair[1].4, "C11", "C11/two-workers", "commands were executed by different threads");
    }
    let writes = writes_of(history);
    let mut queued: Vec<(&WriteView, usize)> = Vec::new();
    for write in &writes {
        if write.err { continue; }
        if write.kind == "forgotten-put" {
            // never polled: no status to compare; if it ran it takes part in the order checks below
            if let Outcome::Write { ack, .. } = &write.rec.outcome {
                if let Some(at) = position.get(ack) {
                    ensure!(!drained.contains(ack), "C11", "C11/executed-and-drained", "a command was both executed and drained");
                    queued.push((write, *at));
                }
            }
            continue;
        }
        let ack = if let Outcome::Write { ack, immediate, earlier_pending, stalled, .. } = &write.rec.outcome {
            ensure!(!*earlier_pending, "C11", "C11/ack-order", "thread {} op {}: a later queued acknowledgement of the same thread completed while this one was still pending", write.rec.thread, write.rec.index);
            if *stalled { return Err(Failure::new("STALL", "stall/ack", format!("thread {} op {} ({} of key {}): the acknowledgement never completed: the command was dropped or the worker is blocked", write.rec.thread, write.rec.index, write.kind, write.key))); }
            if immediate.is_some() && !position.contains_key(ack) && !drained.contains(ack) {
                // answered on the spot. Legitimate for puts of existing keys; an in-place put_or_update that carries an
                // explicit weight (all generated ones do) must queue its weight update: it may not be answered without it
                if write.kind == "upsert" && write.in_place == Some(true) && write.status == Some(St::Accepted) {
                    return Err(Failure::new("C11", "C11/never-executed", format!("thread {} op {}: put_or_update of key {} updated the entry in place and requested an explicit weight, was acknowledged {:?} at once, but no weight update was ever executed or drained by the worker: the queued part of the write was dropped", write.rec.thread, write.rec.index, write.key, write.status)).with_also(vec!["C12".to_string()]));
                }
                continue;
            }
            *ack
        } else { continue };
        match position.get(&ack) {
            Some(at) => {
                ensure!(!drained.contains(&ack), "C11", "C11/executed-and-drained", "a command was both executed and drained");
                ensure!(Some(executed[*at].1) == write.status, "C12", "C12/status-differs", "thread {} op {}: the command ended with {:?} on the worker but the acknowledgement reads {:?}", write.rec.thread, write.rec.index, executed[*at].1, write.status);
                queued.push((write, *at));
            }
            None => {
                ensure!(drained.contains(&ack), "C11", "C11/never-executed", "thread {} op {} ({} of key {}) was queued (acknowledgement pending at return) but never executed; its acknowledgement reads {:?}", write.rec.thread, write.rec.index, write.kind, write.key, write.status);
            }
        }
    }
    for (index, (first, first_at)) in queued.iter().enumerate() {
        for (second, second_at) in queued.iter().skip(index + 1) {
            let (a, a_at, b, b_at) = if first.rec.start <= second.rec.start { (first, first_at, second, second_at) } else { (second, second_at, first, first_at) };
            let ordered = if a.rec.thread == b.rec.thread { a.rec.index < b.rec.index } else { a.rec.end < b.rec.start };
            if ordered {
                ensure!(a_at < b_at, "C11", if a.rec.thread == b.rec.thread { "C11/order/same-thread" } else { "C11/order/cross-thread" },
                    "thread {} op {} ({} of key {}) returned before thread {} op {} ({} of key {}) began, but was executed after it (positions {} and {})", a.rec.thread, a.rec.index, a.kind, a.key, b.rec.thread, b.rec.index, b.kind, b.key, a_at, b_at);
            }
        }
    }
    Ok(())
}

/// C13: refuses new work after shutdown returned, answers every pending command, never blocks.
pub fn check_c13(history: &History) -> Check {
    let first_shutdown_end = history.recs.iter().filter(|rec| matches!(rec.outcome, Outcome::Shutdown)).map(|rec| rec.end).min();
    let executed: HashMap<usize, St> = history.trace.iter().filter_map(|event| if let TraceEvent::Executed { ack, status, .. } = event { Some((*ack, *status)) } else { None }).collect();
    let mut per_thread_shutting_down: BTreeMap<usize, bool> = BTreeMap::new();
    let mut recs: Vec<&Rec> = history.recs.iter().collect();
    recs.sort_by_key(|rec| (rec.thread, rec.index));
    for rec in recs {
        let after_shutdown = first_shutdown_end.map(|end| rec.start > end).unwrap_or(false);
        match &rec.outcome {
            Outcome::Write { kind: "forgotten-put", err, key, .. } => {
                if after_shutdown { ensure!(*err, "C13", "C13/write-accepted-after-shutdown", "thread {} op {}: put of key {} began after shutdown() had returned and did not return Err", rec.thread, rec.index, key); }
            }
            Outcome::Write { err, status, stalled, kind, key, ack, immediate, .. } => {
                if after_shutdown { ensure!(*err, "C13", "C13/write-accepted-after-shutdown", "thread {} op {}: {} of key {} began after shutdown() had returned and did not return Err (status {:?})", rec.thread, rec.index, kind, key, status); }
                if !*err {
                    ensure!(!*stalled, "STALL", "stall/ack", "thread {} op {}: the acknowledgement of {} of key {} never completed (shutdown called: {})", rec.thread, rec.index, kind, key, history.shutdown_called);
                    let status = status.unwrap_or(St::Pending);
                    ensure!(status != St::Pending, "C13", "C13/pending-forever", "thread {} op {}: the acknowledgement resolved to Pending", rec.thread, rec.index);
                    if first_shutdown_end.is_none() { ensure!(status != St::ShuttingDown, "C13", "C13/shutting-down-without-shutdown", "thread {} op {}: acknowledged ShuttingDown but shutdown was never called", rec.thread, rec.index); }
                    let queued = immediate.is_none() || executed.contains_key(ack);
                    if queued {
                        match executed.get(ack) {
                            Some(real) => ensure!(*real == status, "C13", "C13/ran-but-other-status", "thread {} op {}: the command ran and ended with {:?} but its acknowledgement reads {:?}", rec.thread, rec.index, real, status),
                            None => ensure!(status == St::ShuttingDown, "C13", "C13/not-run-but-real-status", "thread {} op {}: the command never ran but its acknowledgement reads {:?}", rec.thread, rec.index, status),
                        }
                        let flag = per_thread_shutting_down.entry(rec.thread).or_insert(false);
                        if status == St::ShuttingDown { *flag = true; } else {
                            ensure!(!*flag, "C13", "C13/real-after-shutting-down", "thread {} op {}: acknowledged {:?} after an earlier queued command of the same thread was acknowledged ShuttingDown", rec.thread, rec.index, status);
                        }
                    }
                }
            }
            Outcome::Read { keys, values } => {
                if after_shutdown { ensure!(values.iter().all(|value| value.is_none()), "C13", "C13/read-after-shutdown", "thread {} op {}: a read of {:?} that began after shutdown() had returned yielded {:x?}", rec.thread, rec.index, keys, values); }
            }
            Outcome::HoldRef { key, value } => {
                if after_shutdown { ensure!(value.is_none(), "C13", "C13/read-after-shutdown", "thread {} op {}: get_ref({}) after shutdown() returned {:x?}", rec.thread, rec.index, key, value); }
            }
            _ => {}
        }
    }
    Ok(())
}

/// C15: every hit is buffered, delivered or dropped, exactly once; reads never wait for the consumer.
pub fn check_c15(case: &ConcCase, history: &History) -> Check {
    if history.shutdown_called { return Ok(()); }
    let mut harness_hits: u64 = 0;
    for rec in &history.recs {
        match &rec.outcome {
            Outcome::Read { values, .. } => harness_hits += values.iter().filter(|value| value.is_some()).count() as u64,
            Outcome::HoldRef { value, .. } => harness_hits += value.is_some() as u64,
            _ => {}
        }
    }
    let stat = |name: &str| history.final_stats.get(name).copied().unwrap_or(0);
    ensure!(stat("hits") == harness_hits, "C16", "C16/hits", "CacheHits = {} but the readers saw {} values", stat("hits"), harness_hits);
    let accounted = history.buffered_at_end + stat("access_added") + stat("access_dropped");
    ensure!(accounted == harness_hits, "C15", if accounted < harness_hits { "C15/records-lost" } else { "C15/records-duplicated" }, "{} successful reads but buffered {} + AccessAdded {} + AccessDropped {} = {}", harness_hits, history.buffered_at_end, stat("access_added"), stat("access_dropped"), accounted);
    let buf = case.cfg.buf as u64;
    match case.consumer {
        ConsumerMode::Stalled => {
            ensure!(history.applied_records == 0, "C15", "C15/applied-while-stalled", "{} records were applied while the consumer was stopped", history.applied_records);
            let handed_over = (stat("access_added") + stat("access_dropped")) / buf;
            if handed_over > 11 { ensure!(stat("access_dropped") > 0, "C15", "C15/no-drop-when-saturated", "{} buffers were handed to a stopped consumer (channel of 10) but none was counted as dropped", handed_over); }
            ensure!(stat("access_added") <= 11 * buf, "C15", "C15/delivered-to-stopped-consumer", "AccessAdded = {} with a stopped consumer (at most 11 buffers of {} can be accepted)", stat("access_added"), buf);
        }
        _ => {
            ensure!(history.applied_records == stat("access_added"), "C15", "C15/delivered-not-applied", "AccessAdded = {} but the consumer applied {} records", stat("access_added"), history.applied_records);
        }
    }
    Ok(())
}

/// C07 in concurrent histories, for keys that cannot have left the cache: never deleted, never given a TTL, cache far
/// from full, no shutdown. Once a creating write of such a key is acknowledged Accepted the key stays readable, so
/// every put that begins later must be refused with KeyAlreadyExists, and its value must never be read.
pub fn check_c07(case: &ConcCase, history: &History) -> Check {
    if history.shutdown_called || case.cfg.max_weight < 4000 || !history.clock_log.is_empty() { return Ok(()); }
    let writes = writes_of(history);
    let mut by_key: BTreeMap<u8, Vec<&WriteView>> = BTreeMap::new();
    for write in &writes { by_key.entry(write.key).or_default().push(write); }
    for (k, list) in &by_key {
        if list.iter().any(|write| write.kind == "delete" || write.ttl_ns.is_some()) { continue; }
        let settled_at = list.iter().filter(|write| write.status == Some(St::Accepted) && write.seen_done > 0).map(|write| write.seen_done).min();
        let Some(settled_at) = settled_at else { continue };
        for write in list.iter().filter(|write| write.kind == "put" && write.rec.start > settled_at && !write.err) {
            if let Some(status) = write.status {
                ensure!(status == St::RejExists, "C07", "C07/conc/put-on-readable", "thread {} op {}: put of key {} began at stamp {} after a write of that key had been acknowledged Accepted at stamp {} (the key is never deleted, has no time-to-live and the cache is far from full, so it is readable), but it was acknowledged {:?} instead of Rejected(KeyAlreadyExists)", write.rec.thread, write.rec.index, k, write.rec.start, settled_at, status);
            }
        }
    }
    Ok(())
}

/// C11 final state: if the only thread that ever wrote key k issued a delete of k as its last write of k, then k must be
/// absent at quiescence (its queued writes are applied in order; nobody else can re-create it).
pub fn check_c11_final(history: &History, snapshot: &Snapshot<u64>) -> Check {
    let writes = writes_of(history);
    let mut by_key: BTreeMap<u8, Vec<&WriteView>> = BTreeMap::new();
    for write in &writes { by_key.entry(write.key).or_default().push(write); }
    for (k, list) in &by_key {
        // a key written exactly once, by a put whose acknowledgement was dropped unread, in a cache far from full: the put
        // is applied all the same, the key must be held at quiescence (nothing else could have removed it)
        if list.len() == 1 && list[0].kind == "forgotten-put" && !list[0].err && snapshot.max_weight >= 4000 && !history.shutdown_called {
            ensure!(snapshot.store.iter().any(|entry| entry.key == *k as u64), "C11", "C11/forgotten-put-not-applied", "thread {} op {}: put of key {} (only write of that key, acknowledgement dropped without being polled, cache far from full) was never applied: the key is not held at quiescence", list[0].rec.thread, list[0].rec.index, k);
        }
        let threads: BTreeSet<usize> = list.iter().map(|write| write.rec.thread).collect();
        if threads.len() != 1 { continue; }
        let last = list.iter().max_by_key(|write| write.rec.index).unwrap();
        if last.kind == "delete" && !last.err {
            let present = snapshot.store.iter().find(|entry| entry.key == *k as u64);
            ensure!(present.is_none(), "C11", "C11/put-then-delete-leaves-key", "thread {} is the only writer of key {} and its last write of that key (op {}) was a delete (acknowledged {:?}), yet the key is still held at quiescence (id {}): an earlier queued write was applied after the delete or the delete was dropped", last.rec.thread, k, last.rec.index, last.status, present.map(|entry| entry.id).unwrap_or(0));
        }
    }
    Ok(())
}

/// What the sole writer's history says about a key at some point: (present, earliest possible deadline if it has a TTL).
fn state_view_of(present: bool, earliest_deadline: Option<u128>) -> (bool, Option<u128>) { (present, earliest_deadline) }

/// A read of key `k` by its only writer, issued after that writer's latest write of the key was acknowledged (stamp
/// `settled_at`): absent after a delete; the latest acknowledged value while the key has no TTL or its deadline certainly
/// lies ahead; not judged otherwise.
fn judge_owner_read(rec: &Rec, k: u8, value: Option<u64>, state: &(bool, Option<u128>), current: Option<u64>, settled_at: u64, clock_high: &dyn Fn(u64) -> u64) -> Check {
    if settled_at == 0 || rec.start < settled_at { return Ok(()); }
    match state {
        (false, _) => ensure!(value.is_none(), "C04", "C04/conc/sole-writer-read-after-delete", "thread {} op {}: read of key {} returned {:x?} although the thread is the only writer of the key and its last write, a delete, had been acknowledged", rec.thread, rec.index, k, value),
        (true, deadline) => {
            let certain = match deadline { None => true, Some(earliest) => (clock_high(rec.end) as u128) < *earliest };
            if certain && value != current {
                let tag = if value.is_none() { "C03/conc/sole-writer-key-lost" } else { "C02/conc/sole-writer-stale-read" };
                return Err(Failure::new(&tag[..3], tag, format!("thread {} op {}: read of key {} returned {:x?}; the thread is the only writer of the key, its latest acknowledged write left the value {:x?} {}, nothing was refused for space in this roomy cache: the key was removed or altered although it was neither deleted nor expired nor evicted", rec.thread, rec.index, k, value, current, if deadline.is_some() { "with a deadline that still lies ahead" } else { "without a time-to-live" })).with_also(vec!["C03".to_string(), "C09".to_string()]));
            }
        }
    }
    Ok(())
}

/// Final state of keys with a single, sequential writer (every write awaited before the thread's next write of that key
/// began) in a cache far from full: if that writer's history ends with the key present and WITHOUT a time-to-live (last
/// effective write: an accepted put without TTL, or an accepted put_or_update that removed the TTL), the key must be held
/// at quiescence, without an expiry. Nothing else may remove it: no other writer, no eviction (the cache is roomy), no
/// expiry. What other threads, the sweeper and the clock do in the meantime must not matter.
pub fn check_sole_writer_final(history: &History, snapshot: &Snapshot<u64>, start_clock: u64) -> Check {
    if history.shutdown_called || snapshot.max_weight < 4000 { return Ok(()); }
    let writes = writes_of(history);
    if writes.iter().any(|write| write.status == Some(St::RejSpace)) { return Ok(()); }
    let clock_low = |stamp: u64| history.clock_log.iter().rev().find(|(at, _)| *at <= stamp).map(|(_, value)| *value).unwrap_or(start_clock);
    let clock_high = |stamp: u64| history.clock_log.iter().find(|(at, _)| *at > stamp).map(|(_, value)| *value).unwrap_or_else(|| history.clock_log.last().map(|(_, value)| *value).unwrap_or(start_clock));
    let mut by_key: BTreeMap<u8, Vec<&WriteView>> = BTreeMap::new();
    for write in &writes { by_key.entry(write.key).or_default().push(write); }
    #[derive(Clone, Copy)]
    enum State { Absent, NoTtl, Ttl { earliest_deadline: u128 } }
    let state_view = |state: &State| match state { State::Absent => state_view_of(false, None), State::NoTtl => state_view_of(true, None), State::Ttl { earliest_deadline } => state_view_of(true, Some(*earliest_deadline)) };
    'keys: for (k, list) in by_key.iter_mut() {
        let threads: BTreeSet<usize> = list.iter().map(|write| write.rec.thread).collect();
        if threads.len() != 1 { continue; }
        list.sort_by_key(|write| write.rec.index);
        let writer = list[0].rec.thread;
        // the writer's own reads of the key, in program order between its writes
        let mut reads: Vec<(&Rec, Option<u64>)> = Vec::new();
        for rec in history.recs.iter().filter(|rec| rec.thread == writer) {
            match &rec.outcome {
                Outcome::Read { keys, values } if values.len() == keys.len() => { for (key, value) in keys.iter().zip(values.iter()) { if key == k { reads.push((rec, *value)); } } }
                Outcome::HoldRef { key, value } if key == k => reads.push((rec, *value)),
                _ => {}
            }
        }
        reads.sort_by_key(|(rec, _)| rec.index);
        let mut state = State::Absent;
        let mut current: Option<u64> = None;
        let mut settled_at: u64 = 0;
        let mut previous_index: Option<usize> = None;
        for (position, write) in list.iter().enumerate() {
            // reads between the previous write (acknowledged at `settled_at`) and this one
            for (rec, value) in reads.iter().filter(|(rec, _)| previous_index.map(|index| rec.index > index).unwrap_or(true) && rec.index < write.rec.index) {
                judge_owner_read(rec, *k, *value, &state_view(&state), current, settled_at, &clock_high)?;
            }
            let Some(status) = write.status else { continue 'keys };
            if write.err || write.kind == "forgotten-put" || status == St::Pending || status == St::ShuttingDown { continue 'keys; }
            // sequential: acknowledged before the next write of the key began
            if let Some(next) = list.get(position + 1) { if write.seen_done == 0 || write.seen_done > next.rec.start { continue 'keys; } }
            let with_ttl = |ttl_ns: u128| State::Ttl { earliest_deadline: clock_low(write.rec.start) as u128 + ttl_ns };
            // a key with a TTL may have run out (and may or may not have been swept) when this write arrives: then what
            // the write finds, and what becomes of an in-place update of the dead entry, is not settled by the property
            // (see the recorded finding F7): such keys are not judged
            let possibly_expired = matches!(state, State::Ttl { earliest_deadline } if clock_high(write.rec.end) as u128 >= earliest_deadline);
            match (write.kind, status) {
                ("put", St::Accepted) => { state = match write.ttl_ns { Some(ttl_ns) => with_ttl(ttl_ns), None => State::NoTtl }; current = token_of_write(write.rec); }
                ("put", St::RejExists) => { if matches!(state, State::Absent) { continue 'keys; } }
                ("upsert", St::Accepted) => {
                    if possibly_expired && write.in_place != Some(false) { continue 'keys; }
                    let was = if write.in_place == Some(false) { State::Absent } else { state };
                    state = match (was, write.removes_ttl, write.ttl_ns) {
                        (_, true, _) => State::NoTtl,
                        (_, false, Some(ttl_ns)) => with_ttl(ttl_ns),
                        (State::Absent, false, None) => State::NoTtl,
                        (other, false, None) => other,
                    };
                    current = token_of_write(write.rec);
                }
                ("delete", St::Accepted) | ("delete", St::RejMissing) => { state = State::Absent; current = None; }
                _ => continue 'keys,
            }
            if write.seen_done == 0 { continue 'keys; }
            settled_at = write.seen_done;
            previous_index = Some(write.rec.index);
        }
        for (rec, value) in reads.iter().filter(|(rec, _)| previous_index.map(|index| rec.index > index).unwrap_or(true)) {
            judge_owner_read(rec, *k, *value, &state_view(&state), current, settled_at, &clock_high)?;
        }
        if matches!(state, State::NoTtl) {
            let last = list.last().unwrap();
            let held = snapshot.store.iter().find(|entry| entry.key == *k as u64);
            match held {
                None => return Err(Failure::new("C03", "C03/conc/sole-writer-key-lost", format!("thread {} is the only writer of key {}; its last write (op {}, {} acknowledged {:?}) left the key in the cache without a time-to-live, nothing was refused for space in a cache of weight {}, yet the key is not held at quiescence: it was removed although it was neither deleted nor expired nor evicted", last.rec.thread, k, last.rec.index, last.kind, last.status, snapshot.max_weight)).with_also(vec!["C09".to_string(), "C10".to_string()])),
                Some(entry) => {
                    ensure!(!entry.soft_deleted, "C04", "C04/conc/marked-deleted-at-quiescence", "key {} is held and marked deleted at quiescence although its only writer's last write was not a delete", k);
                    if let Some(expiry) = entry.expire_after {
                        return Err(Failure::new("C08", "C08/conc/ttl-not-removed", format!("thread {} is the only writer of key {}; its last write (op {}, {} acknowledged {:?}) left the key without a time-to-live, yet the entry held at quiescence expires at {:?}", last.rec.thread, k, last.rec.index, last.kind, last.status, expiry)).with_also(vec!["C09".to_string()]));
                    }
                }
            }
        }
    }
    Ok(())
}

/// C10 in concurrent histories: after the final rotation (one complete sweep of every shard) no key whose deadline lay
/// before the rotation may be left, and its weight must be released (the bijection check covers the weight).
pub fn check_c10(history: &History, snapshot: &Snapshot<u64>) -> Check {
    if !history.rotated { return Ok(()); }
    let start = std::time::UNIX_EPOCH + Duration::from_nanos(history.rotation_start_ns);
    for entry in &snapshot.store {
        if let Some(expiry) = entry.expire_after {
            // if the expiry index does not hold this entry under its deadline the sweeper could not have found it: that is
            // an index inconsistency, judged (and classified) by check_index
            let indexed = snapshot.ttl.iter().any(|indexed| indexed.id == entry.id && indexed.expire_after == expiry);
            if !indexed { continue; }
            ensure!(expiry >= start, "C10", "C10/conc/not-swept-after-rotation", "key {} (id {}) expired at {:?}, before the final rotation started at {:?}, and is still held after one complete sweep of every shard", entry.key, entry.id, expiry, start);
        }
    }
    Ok(())
}

/// C16 at quiescence of a concurrent history (no shutdown): counter identities that need no model.
pub fn check_c16(history: &History, snapshot: &Snapshot<u64>) -> Check {
    if history.shutdown_called { return Ok(()); }
    let stat = |name: &str| history.final_stats.get(name).copied().unwrap_or(0);
    let mut lookups: u64 = 0;
    for rec in &history.recs {
        match &rec.outcome { Outcome::Read { keys, .. } => lookups += keys.len() as u64, Outcome::HoldRef { .. } => lookups += 1, _ => {} }
    }
    ensure!(stat("hits") + stat("misses") == lookups, "C16", "C16/conc/lookups", "hits {} + misses {} != {} key lookups performed", stat("hits"), stat("misses"), lookups);
    ensure!(stat("keys_added").wrapping_sub(stat("keys_deleted")) == snapshot.store.len() as u64, "C16", "C16/conc/keys", "KeysAdded {} - KeysDeleted {} != {} keys held", stat("keys_added"), stat("keys_deleted"), snapshot.store.len());
    ensure!(stat("weight_added").wrapping_sub(stat("weight_removed")) == snapshot.weight_used as u64, "C16", "C16/conc/weight", "WeightAdded {} - WeightRemoved {} != total weight used {}", stat("weight_added"), stat("weight_removed"), snapshot.weight_used);
    Ok(())
}

/// C03 for tight-fit cases (cache weight == combined weight of the whole key universe, every key has one fixed put weight):
/// nothing may ever be refused for space, and the owner thread (thread 0), which works sequentially on keys nobody else
/// touches and never uses a TTL, must always read back its latest accepted value.
pub fn check_c03(case: &ConcCase, history: &History) -> Check {
    let universe_weight: i64 = (0u8..32).map(base_weight).take_while(|_| true).take(0).sum::<i64>();
    let _ = universe_weight;
    if history.shutdown_called { return Ok(()); }
    let fits = {
        let keys: BTreeSet<u8> = case.threads.iter().flatten().filter_map(|op| match op { COp::Put { k, .. } | COp::Upsert { k, .. } => Some(*k), _ => None }).collect();
        let extra_free = case.threads.iter().flatten().all(|op| !matches!(op, COp::Put { extra, explicit, .. } if *extra != 0 || !*explicit));
        extra_free && keys.iter().map(|k| base_weight(*k)).sum::<i64>() <= case.cfg.max_weight
    };
    if !fits { return Ok(()); }
    for rec in &history.recs {
        if let Outcome::Write { status: Some(St::RejSpace), kind, key, .. } = &rec.outcome {
            return Err(Failure::new("C03", "C03/conc/refused-for-space", format!("thread {} op {}: {} of key {} was refused for lack of space although the combined weight of all keys of this case ({}) never exceeds the cache weight {}", rec.thread, rec.index, kind, key, case.cfg.max_weight, case.cfg.max_weight)));
        }
    }
    // the owner's sequential model
    let mut state: BTreeMap<u8, Option<u64>> = BTreeMap::new();
    let mut owner: Vec<&Rec> = history.recs.iter().filter(|rec| rec.thread == 0).collect();
    owner.sort_by_key(|rec| rec.index);
    let foreign = history.recs.iter().any(|rec| rec.thread != 0 && matches!(&rec.outcome, Outcome::Write { key, .. } if *key < TIGHT_OWNER_KEYS));
    if foreign { return Ok(()); }
    for rec in owner {
        match &rec.outcome {
            Outcome::Write { key, token, kind, status, in_place, err, .. } if !*err => {
                let present = state.get(key).copied().flatten().is_some();
                match *kind {
                    "put" => {
                        if present { ensure!(*status == Some(St::RejExists), "C07", "C07/conc/put-on-readable", "owner op {}: put of its readable key {} was acknowledged {:?}", rec.index, key, status); }
                        else {
                            ensure!(*status == Some(St::Accepted), "C03", "C03/conc/owner-put-refused", "owner op {}: put of key {} (absent, everything fits) was acknowledged {:?}", rec.index, key, status);
                            state.insert(*key, *token);
                        }
                    }
                    "upsert" => {
                        ensure!(*status == Some(St::Accepted), "C03", "C03/conc/owner-upsert-refused", "owner op {}: put_or_update of key {} (present: {}, in place: {:?}) was acknowledged {:?}", rec.index, key, present, in_place, status);
                        state.insert(*key, *token);
                    }
                    _ => { state.insert(*key, None); }
                }
            }
            Outcome::Read { keys, values } => {
                for (k, value) in keys.iter().zip(values.iter()) {
                    let expected = state.get(k).copied().flatten();
                    ensure!(*value == expected, "C03", if expected.is_some() && value.is_none() { "C03/conc/owner-key-lost" } else { "C03/conc/owner-read" },
                        "owner op {}: read of key {} returned {:x?} but the owner's latest acknowledged value is {:x?}; only the owner writes this key, it has no time-to-live and the whole key universe fits the cache", rec.index, k, value, expected);
                }
            }
            _ => {}
        }
    }
    Ok(())
}

pub fn check_progress(history: &History) -> Check {
    if let Some(blocked) = &history.blocked {
        if blocked.starts_with("INCONCLUSIVE") { return Err(Failure::new("INCONCLUSIVE", "inconclusive/slow", blocked.clone())); }
        return Err(Failure::new("STALL", "stall/blocked", blocked.clone()));
    }
    for rec in &history.recs {
        if let Outcome::Panicked(message) = &rec.outcome {
            return Err(Failure::new("C17", "C17/caller-panic", format!("thread {} op {} panicked: {}", rec.thread, rec.index, message)));
        }
        if let Outcome::Write { stalled: true, kind, key, .. } = &rec.outcome {
            return Err(Failure::new("STALL", "stall/ack", format!("thread {} op {}: the acknowledgement of {} of key {} never completed", rec.thread, rec.index, kind, key)));
        }
    }
    ensure!(history.background_panics.is_empty(), "C17", "C17/background-panic", "a background thread of the cache panicked: {:?}", history.background_panics);
    if let Some(error) = &history.liveness_error { return Err(Failure::new("STALL", "stall/background", error.clone())); }
    Ok(())
}

#[derive(Clone, Debug, Default, Serialize)]
pub struct ConcStats {
    pub ops: u64,
    pub threads: u64,
    pub overlapping_read_write: bool,
    pub read_after_completed_overwrite: bool,
    pub delays: u64,
    pub distinct_sites_delayed: u64,
    pub queue_full_sends: bool,
    pub concurrent_in_flight: bool,
    pub shutting_down_acks: u64,
    pub real_acks: u64,
    pub handovers: u64,
    pub drops: u64,
    pub sweeps_during_run: bool,
    pub monitor_samples: u64,
    pub evicted_or_rejected: bool,
    pub unawaited_same_key: bool,
    pub read_between_delete_and_ack: bool,
    pub guard_held_during_delete: bool,
    pub ttl_writes: u64,
    pub owner_reincarnations: u64,
    pub rotated: bool,
    pub sched_steps: u64,
    pub sched_threads: u64,
    pub puts_on_settled_keys: u64,
    pub sole_writer_put_then_delete: bool,
    pub eviction_loop_delayed: bool,
    pub swept_during_run: bool,
}

pub fn conc_stats(case: &ConcCase, history: &History) -> ConcStats {
    let mut stats = ConcStats { threads: case.threads.len() as u64, ops: history.recs.len() as u64, delays: history.delays_injected, monitor_samples: history.monitor_samples, ..ConcStats::default() };
    stats.distinct_sites_delayed = case.injection.sites.iter().filter(|(site, _, _)| history.site_hits.get(*site as usize % SITES).copied().unwrap_or(0) > 0).count() as u64;
    let writes = writes_of(history);
    let mut by_key: BTreeMap<u8, Vec<&WriteView>> = BTreeMap::new();
    for write in &writes { by_key.entry(write.key).or_default().push(write); }
    for rec in &history.recs {
        if let Outcome::Read { keys, values } = &rec.outcome {
            for (k, value) in keys.iter().zip(values.iter()) {
                if let Some(others) = by_key.get(k) {
                    if others.iter().any(|write| write.rec.start < rec.end && rec.start < write.rec.end.max(write.seen_done)) { stats.overlapping_read_write = true; }
                    if value.is_some() && others.iter().any(|write| !write.err && write.rec.end < rec.start && token_of_write(write.rec) != *value) { stats.read_after_completed_overwrite = true; }
                }
            }
        }
    }
    for write in &writes {
        match write.status { Some(St::ShuttingDown) => stats.shutting_down_acks += 1, Some(St::RejSpace) => { stats.evicted_or_rejected = true; stats.real_acks += 1; } Some(_) => stats.real_acks += 1, None => {} }
    }
    // queue pressure: two Sent events whose intervals overlap = two threads had commands in flight simultaneously
    let sent: Vec<(u64, u64)> = history.trace.iter().filter_map(|event| if let TraceEvent::Sent { before, after, .. } = event { Some((*before, *after)) } else { None }).collect();
    let executed_begin: Vec<u64> = history.trace.iter().filter_map(|event| if let TraceEvent::Executed { begin, .. } = event { Some(*begin) } else { None }).collect();
    for (before, after) in &sent {
        // blocked on a full queue: at least one command was dequeued between `before` and `after` of this send
        if executed_begin.iter().any(|begin| begin > before && begin < after) { stats.queue_full_sends = true; }
    }
    let mut sorted = sent.clone();
    sorted.sort();
    if sorted.windows(2).any(|pair| pair[1].0 < pair[0].1) { stats.concurrent_in_flight = true; }
    let buf = case.cfg.buf as u64;
    stats.handovers = (history.final_stats.get("access_added").copied().unwrap_or(0) + history.final_stats.get("access_dropped").copied().unwrap_or(0)) / buf.max(1);
    stats.drops = history.final_stats.get("access_dropped").copied().unwrap_or(0);
    stats.sweeps_during_run = !history.clock_log.is_empty();
    stats.rotated = history.rotated;
    stats.sched_steps = history.sched_steps;
    stats.sched_threads = history.sched_threads;
    stats.owner_reincarnations = history.recs.iter().filter(|rec| rec.thread == 0 && matches!(&rec.outcome, Outcome::Write { kind: "put", status: Some(St::Accepted), .. })).count() as u64;
    stats.ttl_writes = writes.iter().filter(|write| write.ttl_ns.is_some() && write.status == Some(St::Accepted)).count() as u64;
    stats.eviction_loop_delayed = history.site_hits.get(Site::CreateSpaceLoop as usize).copied().unwrap_or(0) > 0;
    stats.swept_during_run = history.site_hits.get(Site::SweeperInRetain as usize).copied().unwrap_or(0) > 0;
    for write in writes.iter().filter(|write| write.kind == "delete" && !write.err && write.seen_done > 0) {
        for rec in &history.recs {
            match &rec.outcome {
                Outcome::Read { keys, .. } if keys.contains(&write.key) && rec.start > write.rec.end && rec.end < write.seen_done => stats.read_between_delete_and_ack = true,
                Outcome::HoldRef { .. } if rec.start < write.rec.start && rec.end > write.rec.start => stats.guard_held_during_delete = true,
                _ => {}
            }
        }
    }
    for (_, list) in &by_key {
        let settled_at = list.iter().filter(|write| write.status == Some(St::Accepted) && write.seen_done > 0).map(|write| write.seen_done).min();
        if let Some(settled_at) = settled_at { stats.puts_on_settled_keys += list.iter().filter(|write| write.kind == "put" && write.rec.start > settled_at).count() as u64; }
        let threads: BTreeSet<usize> = list.iter().map(|write| write.rec.thread).collect();
        if threads.len() == 1 && list.len() >= 2 && list.iter().max_by_key(|write| write.rec.index).map(|write| write.kind == "delete").unwrap_or(false) { stats.sole_writer_put_then_delete = true; }
        for pair in list.windows(2) {
            if pair[1].rec.start < pair[0].seen_done.max(pair[0].rec.end) { stats.unawaited_same_key = true; }
        }
    }
    stats
}

// ---------------------------------------------------------------------------------------------
// Generators

#[derive(Clone, Copy, Debug, PartialEq, Eq)]
pub enum ConcProfile {
    General,
    Shutdown,
    Reads,
    Deadlock,
    Bursts,
    /// one deleter cycling put / unawaited delete / immediate reads on a few keys, readers and guard holders on the same
    /// shard, command worker slowed down: the window between delete() returning and its acknowledgement is wide
    DeleteWindow,
    /// small cache full of short-lived TTL keys, heavy incoming puts that need several evictions, the admission loop
    /// slowed down while a clock thread makes the sweeper collect keys at the same time
    EvictVsSweep,
    /// no deletes, no TTLs, no pressure: puts racing in-place upserts, reads and guards on settled keys
    PutContention,
    /// the cache weight equals the combined weight of the whole key universe (it always fits); an owner thread works
    /// sequentially on its own keys while other threads churn TTL keys, deletes and sweeps
    TightFit,
    /// a few short-lived TTL keys that are expired, deleted, re-put and re-TTL'd by several threads while the sweeper is
    /// slowed down between its steps (weight release, store removal) and a clock thread keeps expiring keys
    SweepRace,
    /// readers through the borrowing read API on hot keys of a full cache while a writer keeps evicting cold keys
    ReadersVsEviction,
    /// SweepRace plus one thread that is the only writer of four private keys and keeps giving them a TTL and taking it away
    TtlOwner,
    /// tiny programs (2-3 client threads, 2-7 operations each, 1-2 keys, TTLs, clock moves as program steps) executed
    /// under the controlled scheduler: the interleaving of clients, worker, sweeper and consumer at the schedule points is
    /// chosen by generated priorities, not by the operating system
    Sched,
}

fn cop_strategy(profile: ConcProfile, max_key: u8) -> BoxedStrategy<COp> {
    let key = key_strategy(max_key);
    let ttl_opt = prop_oneof![4 => Just(None), 1 => (0u32..=3).prop_map(|s| Some(TtlSel::Secs(s))), 1 => (1u32..=900).prop_map(|m| Some(TtlSel::Millis(m)))];
    let ttl_req = prop_oneof![4 => Just(TtlReq::Keep), 1 => (0u32..=3).prop_map(|s| TtlReq::Set(TtlSel::Secs(s))), 1 => Just(TtlReq::Remove)];
    let wait = match profile { ConcProfile::Bursts => Just(false).boxed(), _ => prop_oneof![3 => Just(true), 2 => Just(false)].boxed() };
    let put = (key.clone(), 0u8..4, any::<bool>(), ttl_opt, wait.clone()).prop_map(|(k, extra, explicit, ttl, wait)| COp::Put { k, extra, explicit, ttl, wait });
    let upsert = (key.clone(), 0u8..4, ttl_req, wait.clone()).prop_map(|(k, down, ttl, wait)| COp::Upsert { k, down, ttl, wait });
    let delete = (key.clone(), wait).prop_map(|(k, wait)| COp::Delete { k, wait });
    let read = (read_kind_strategy(), prop::collection::vec(key.clone(), 1..=4)).prop_map(|(kind, keys)| COp::Read { kind, keys });
    let hold = (key.clone(), 1u16..400).prop_map(|(k, micros)| COp::HoldRef { k, micros });
    match profile {
        ConcProfile::General => prop_oneof![5 => put, 4 => upsert, 3 => delete, 8 => read, 1 => Just(COp::AwaitAll), 1 => (1u8..4).prop_map(COp::Pause), 1 => (40u8..120).prop_map(|k| COp::Forget { k })].boxed(),
        ConcProfile::Shutdown => prop_oneof![6 => put, 3 => upsert, 3 => delete, 5 => read, 1 => Just(COp::AwaitAll), 1 => Just(COp::Shutdown)].boxed(),
        ConcProfile::Reads => prop_oneof![1 => put, 30 => read, 1 => hold].boxed(),
        ConcProfile::Deadlock => prop_oneof![5 => put, 6 => upsert, 3 => delete, 6 => read, 2 => hold, 1 => Just(COp::AwaitAll)].boxed(),
        ConcProfile::Bursts => prop_oneof![6 => put, 2 => upsert, 4 => delete, 1 => read, 2 => (40u8..120).prop_map(|k| COp::Forget { k })].boxed(),
        ConcProfile::DeleteWindow | ConcProfile::EvictVsSweep | ConcProfile::PutContention | ConcProfile::TightFit | ConcProfile::SweepRace | ConcProfile::TtlOwner | ConcProfile::ReadersVsEviction | ConcProfile::Sched => prop_oneof![6 => put, 2 => upsert, 4 => delete, 1 => read].boxed(),
    }
}

fn injection_strategy(profile: ConcProfile) -> BoxedStrategy<Injection> {
    let delay = prop_oneof![3 => (10u16..3000).prop_map(Delay::Spin), 2 => (1u8..4).prop_map(Delay::Yield), 2 => (5u16..300).prop_map(Delay::SleepUs)];
    let site = match profile {
        ConcProfile::Reads => prop_oneof![Just(Site::PoolAdd as u8), Just(Site::ConsumerLoop as u8), Just(Site::ReadAfterStore as u8)].boxed(),
        ConcProfile::Shutdown => prop_oneof![3 => (Site::ShutdownAfterFlag as u8..=Site::ShutdownAfterPolicyClear as u8), 1 => Just(Site::WorkerAfterDequeue as u8), 1 => Just(Site::SendBefore as u8), 1 => Just(Site::PutAfterExistenceCheck as u8), 1 => Just(Site::WorkerBeforeAcknowledge as u8),
            // critical sections of the worker that shutdown()'s clearing steps can meet
            2 => Just(Site::CacheWeightUpdateInEntry as u8), 1 => Just(Site::CacheWeightAddAfterInsert as u8), 1 => Just(Site::CacheWeightDeleteAfterRemove as u8), 1 => Just(Site::CacheWeightDeleteInLock as u8), 1 => Just(Site::CreateSpaceLoop as u8), 1 => Just(Site::SweeperInRetain as u8)].boxed(),
        ConcProfile::Bursts => prop_oneof![Just(Site::WorkerAfterDequeue as u8), Just(Site::SendBefore as u8), Just(Site::SendAfter as u8), Just(Site::WorkerBeforeAcknowledge as u8), Just(Site::PutAfterExistenceCheck as u8)].boxed(),
        _ => (0u8..SITES as u8).boxed(),
    };
    (prop::collection::vec((site, 20u8..=255, delay), 0..=5), any::<u64>()).prop_map(|(sites, seed)| Injection { sites, seed: seed | 1 }).boxed()
}

fn delete_window_strategy(thorough: bool) -> BoxedStrategy<ConcCase> {
    let key = 0u8..3;
    let cycle = (key.clone(), prop::collection::vec(read_kind_strategy(), 1..=3), any::<bool>(), prop_oneof![3 => Just(None), 1 => (1u32..=3).prop_map(|s| Some(TtlSel::Secs(s)))]).prop_map(|(k, kinds, upsert_first, ttl)| {
        let mut ops = vec![COp::Put { k, extra: 0, explicit: true, ttl, wait: true }];
        if upsert_first { ops.push(COp::Upsert { k, down: 0, ttl: TtlReq::Keep, wait: true }); }
        ops.push(COp::Delete { k, wait: false });
        for kind in kinds { ops.push(COp::Read { kind, keys: vec![k] }); }
        ops.push(COp::AwaitAll);
        ops
    });
    let deleter = prop::collection::vec(cycle, 2..=(if thorough { 20 } else { 8 })).prop_map(|cycles| cycles.into_iter().flatten().collect::<Vec<COp>>());
    let reader_op = prop_oneof![6 => (read_kind_strategy(), prop::collection::vec(key.clone(), 1..=3)).prop_map(|(kind, keys)| COp::Read { kind, keys }), 3 => (key.clone(), 20u16..600).prop_map(|(k, micros)| COp::HoldRef { k, micros }), 1 => (1u8..3).prop_map(COp::Pause)];
    let readers = prop::collection::vec(prop::collection::vec(reader_op, 10..=(if thorough { 120 } else { 50 })), 1..=5);
    let delay = prop_oneof![(20u16..400).prop_map(Delay::SleepUs), (1u8..4).prop_map(Delay::Yield)];
    let extra_site = prop_oneof![Just(Site::DeleteAfterMarkDeleted as u8), Just(Site::ReadAfterStore as u8), Just(Site::SendBefore as u8), Just(Site::WorkerBeforeAcknowledge as u8), Just(Site::PoolAdd as u8)];
    let injection = ((100u8..=255, (30u16..500).prop_map(Delay::SleepUs)), prop::collection::vec((extra_site, 30u8..=255, delay), 0..=3), any::<u64>())
        .prop_map(|((probability, worker_delay), mut sites, seed)| { sites.push((Site::WorkerAfterDequeue as u8, probability, worker_delay)); Injection { sites, seed: seed | 1 } });
    let cfg = (prop_oneof![Just(1usize), Just(2), Just(8)], 1usize..=2, 1usize..=4, prop_oneof![Just(HashMode::Identity), Just(HashMode::Default)])
        .prop_map(|(cmd_buf, pool, buf, hash)| Cfg { counters: 1000, capacity: 16, max_weight: 4000, shards: 2, cmd_buf, pool, buf, tick_us: 500, hash, weight_mode: WeightMode::Table(vec![8, 11, 14, 17, 20]), start_ns: 0, noise_readers: 0, prelude: None });
    (cfg, deleter, readers, injection).prop_map(|(cfg, deleter, readers, injection)| {
        let mut threads = vec![deleter];
        threads.extend(readers);
        ConcCase { cfg, threads, injection, clock: Vec::new(), monitor: false, consumer: ConsumerMode::Free, sched: None }
    }).boxed()
}

fn evict_vs_sweep_strategy(thorough: bool) -> BoxedStrategy<ConcCase> {
    let key = 0u8..10;
    let ttl = prop_oneof![1 => Just(None), 3 => (100u32..=1500).prop_map(|m| Some(TtlSel::Millis(m))), 2 => (0u32..=2).prop_map(|s| Some(TtlSel::Secs(s)))];
    let op = prop_oneof![
        8 => (key.clone(), 0u8..=3, ttl.clone(), any::<bool>()).prop_map(|(k, extra, ttl, wait)| COp::Put { k, extra, explicit: true, ttl, wait }),
        5 => (key.clone(), 25u8..=50, ttl, any::<bool>()).prop_map(|(k, extra, ttl, wait)| COp::Put { k, extra, explicit: true, ttl, wait }),
        2 => (key.clone(), any::<bool>()).prop_map(|(k, wait)| COp::Delete { k, wait }),
        2 => (key.clone(), prop_oneof![Just(TtlReq::Keep), (100u32..=1500).prop_map(|m| TtlReq::Set(TtlSel::Millis(m)))]).prop_map(|(k, ttl)| COp::Upsert { k, down: 0, ttl, wait: true }),
        3 => (read_kind_strategy(), prop::collection::vec(key.clone(), 1..=3)).prop_map(|(kind, keys)| COp::Read { kind, keys }),
        1 => Just(COp::AwaitAll),
    ];
    let threads = prop::collection::vec(prop::collection::vec(op, 10..=(if thorough { 80 } else { 40 })), 2..=4);
    let delay = prop_oneof![(50u16..600).prop_map(Delay::SleepUs), (1u8..4).prop_map(Delay::Yield)];
    let extra_site = prop_oneof![Just(Site::SweeperInRetain as u8), Just(Site::SweeperBeforeRetain as u8), Just(Site::CacheWeightDeleteAfterRemove as u8), Just(Site::CacheWeightDeleteInLock as u8), Just(Site::MaybeAddAfterSpaceCheck as u8), Just(Site::CacheWeightAddAfterInsert as u8), Just(Site::CacheWeightUpdateInEntry as u8)];
    let injection = ((120u8..=255, (100u16..800).prop_map(Delay::SleepUs)), prop::collection::vec((extra_site, 30u8..=255, delay), 0..=3), any::<u64>())
        .prop_map(|((probability, loop_delay), mut sites, seed)| { sites.push((Site::CreateSpaceLoop as u8, probability, loop_delay)); Injection { sites, seed: seed | 1 } });
    let cfg = (prop_oneof![Just(60i64), Just(80), Just(100), Just(150)], prop_oneof![Just(1usize), Just(4)], prop_oneof![Just(HashMode::Identity), Just(HashMode::Constant)], prop_oneof![Just(100u64), Just(300)])
        .prop_map(|(max_weight, cmd_buf, hash, tick_us)| Cfg { counters: 1000, capacity: 16, max_weight, shards: 2, cmd_buf, pool: 1, buf: 4, tick_us, hash, weight_mode: WeightMode::Table(vec![8, 11, 14, 17, 20]), start_ns: 0, noise_readers: 0, prelude: None });
    let clock = prop::collection::vec((50u16..800, 200u32..1600).prop_map(|(pause_us, advance_ms)| ClockStep { pause_us, advance_ms }), 6..=(if thorough { 40 } else { 20 }));
    (cfg, threads, injection, clock).prop_map(|(cfg, threads, injection, clock)| ConcCase { cfg, threads, injection, clock, monitor: true, consumer: ConsumerMode::Free, sched: None }).boxed()
}

fn put_contention_strategy(thorough: bool) -> BoxedStrategy<ConcCase> {
    let key = 0u8..6;
    let op = prop_oneof![
        6 => (key.clone(), 0u8..4, any::<bool>(), any::<bool>()).prop_map(|(k, extra, explicit, wait)| COp::Put { k, extra, explicit, ttl: None, wait }),
        8 => (key.clone(), any::<bool>()).prop_map(|(k, wait)| COp::Upsert { k, down: 0, ttl: TtlReq::Keep, wait }),
        5 => (read_kind_strategy(), prop::collection::vec(key.clone(), 1..=3)).prop_map(|(kind, keys)| COp::Read { kind, keys }),
        1 => (key.clone(), 5u16..200).prop_map(|(k, micros)| COp::HoldRef { k, micros }),
        1 => Just(COp::AwaitAll),
    ];
    let threads = prop::collection::vec(prop::collection::vec(op, 10..=(if thorough { 150 } else { 60 })), 3..=8);
    let delay = prop_oneof![(10u16..2000).prop_map(Delay::Spin), (1u8..3).prop_map(Delay::Yield), (5u16..100).prop_map(Delay::SleepUs)];
    let site = prop_oneof![Just(Site::PutAfterExistenceCheck as u8), Just(Site::UpsertAfterStoreUpdate as u8), Just(Site::WorkerAfterDequeue as u8), Just(Site::ReadAfterStore as u8), Just(Site::CacheWeightUpdateInEntry as u8), Just(Site::SendBefore as u8)];
    let injection = (prop::collection::vec((site, 20u8..=200, delay), 0..=3), any::<u64>()).prop_map(|(sites, seed)| Injection { sites, seed: seed | 1 });
    let cfg = (prop_oneof![Just(1usize), Just(4), Just(64)], prop_oneof![Just(HashMode::Identity), Just(HashMode::Default)])
        .prop_map(|(cmd_buf, hash)| Cfg { counters: 1000, capacity: 16, max_weight: 4000, shards: 2, cmd_buf, pool: 2, buf: 4, tick_us: 1000, hash, weight_mode: WeightMode::Table(vec![8, 11, 14, 17, 20]), start_ns: 0, noise_readers: 0, prelude: None });
    (cfg, threads, injection).prop_map(|(cfg, threads, injection)| ConcCase { cfg, threads, injection, clock: Vec::new(), monitor: false, consumer: ConsumerMode::Free, sched: None }).boxed()
}

fn sweep_race_strategy(thorough: bool) -> BoxedStrategy<ConcCase> {
    let key = 0u8..3;
    let short_ttl = prop_oneof![(100u32..=1500).prop_map(TtlSel::Millis), (0u32..=2).prop_map(TtlSel::Secs)];
    let cycle = (key.clone(), short_ttl.clone(), prop_oneof![Just(TtlReq::Remove), short_ttl.clone().prop_map(TtlReq::Set), Just(TtlReq::Keep)], any::<bool>(), any::<bool>(), read_kind_strategy(), any::<bool>()).prop_map(|(k, ttl, change, wait_upsert, ttl_on_reput, kind, delete_first)| {
        let mut ops = vec![COp::Put { k, extra: 0, explicit: true, ttl: Some(ttl), wait: true }, COp::Pause(2)];
        ops.push(COp::Upsert { k, down: 0, ttl: change, wait: wait_upsert });
        if delete_first { ops.push(COp::Delete { k, wait: true }); }
        ops.push(COp::Put { k, extra: 1, explicit: true, ttl: if ttl_on_reput { Some(TtlSel::Secs(2)) } else { None }, wait: true });
        ops.push(COp::Read { kind, keys: vec![k] });
        if !delete_first { ops.push(COp::Delete { k, wait: true }); }
        ops
    });
    let thread = prop::collection::vec(cycle, 2..=(if thorough { 25 } else { 10 })).prop_map(|cycles| cycles.into_iter().flatten().collect::<Vec<COp>>());
    let threads = prop::collection::vec(thread, 2..=5);
    let delay = prop_oneof![(100u16..2000).prop_map(Delay::SleepUs), (1u8..4).prop_map(Delay::Yield)];
    let extra_site = prop_oneof![Just(Site::SweeperInRetain as u8), Just(Site::CacheWeightDeleteInLock as u8), Just(Site::UpsertAfterStoreUpdate as u8), Just(Site::UpsertBeforeSend as u8), Just(Site::WorkerAfterDequeue as u8), Just(Site::DeleteAfterMarkDeleted as u8)];
    let injection = ((150u8..=255, (200u16..2500).prop_map(Delay::SleepUs)), prop::collection::vec((extra_site, 30u8..=255, delay), 0..=3), any::<u64>())
        .prop_map(|((probability, sweeper_delay), mut sites, seed)| { sites.push((Site::CacheWeightDeleteAfterRemove as u8, probability, sweeper_delay)); Injection { sites, seed: seed | 1 } });
    let cfg = (prop_oneof![Just(1usize), Just(8)], prop_oneof![Just(HashMode::Identity), Just(HashMode::Default)], prop_oneof![Just(100u64), Just(300)])
        .prop_map(|(cmd_buf, hash, tick_us)| Cfg { counters: 1000, capacity: 16, max_weight: 4000, shards: 2, cmd_buf, pool: 1, buf: 4, tick_us, hash, weight_mode: WeightMode::Table(vec![8, 11, 14, 17, 20]), start_ns: 0, noise_readers: 0, prelude: None });
    let clock = prop::collection::vec((50u16..600, 300u32..1400).prop_map(|(pause_us, advance_ms)| ClockStep { pause_us, advance_ms }), 8..=(if thorough { 60 } else { 30 }));
    (cfg, threads, injection, clock).prop_map(|(cfg, threads, injection, clock)| ConcCase { cfg, threads, injection, clock, monitor: true, consumer: ConsumerMode::Free, sched: None }).boxed()
}

/// The sweep-race programs plus an owner thread: the only writer of keys 10..=13, every write awaited. It gives a key a
/// short TTL, pauses, removes the TTL again (or replaces the key by one without TTL) and finally leaves each key without a
/// TTL, while the other threads keep the sweeper busy in the same expiry shards.
fn ttl_owner_strategy(thorough: bool) -> BoxedStrategy<ConcCase> {
    let short_ttl = prop_oneof![(100u32..=1500).prop_map(TtlSel::Millis), (0u32..=3).prop_map(TtlSel::Secs)];
    let step = (10u8..=13, short_ttl, 0u8..4, 0u8..6, read_kind_strategy()).prop_map(|(k, ttl, how, pause, kind)| {
        let mut ops = vec![COp::Put { k, extra: 0, explicit: true, ttl: Some(ttl.clone()), wait: true }, COp::Read { kind, keys: vec![k] }, COp::Pause(pause)];
        match how {
            0 | 1 => ops.push(COp::Upsert { k, down: 0, ttl: TtlReq::Remove, wait: true }),
            2 => { ops.push(COp::Upsert { k, down: 0, ttl: TtlReq::Set(ttl), wait: true }); ops.push(COp::Pause(pause)); ops.push(COp::Upsert { k, down: 0, ttl: TtlReq::Remove, wait: true }); }
            _ => { ops.push(COp::Delete { k, wait: true }); ops.push(COp::Put { k, extra: 1, explicit: true, ttl: None, wait: true }); }
        }
        ops.push(COp::Read { kind, keys: vec![k] });
        ops
    });
    let owner = prop::collection::vec(step, 3..=(if thorough { 20 } else { 10 })).prop_map(|steps| steps.into_iter().flatten().collect::<Vec<COp>>());
    (sweep_race_strategy(thorough), owner).prop_map(|(mut case, owner)| {
        case.threads.truncate(3);
        case.threads.push(owner);
        // the sweeper is held inside its pass (expiry shard locked) more often than not
        case.injection.sites.push((Site::SweeperInRetain as u8, 200, Delay::SleepUs(400)));
        case
    }).boxed()
}

/// A full cache of three hot keys (read all the time through get_ref / map_get_ref, which record the access while they
/// hold the store guard) and two cold ones; a writer keeps putting fresh cold keys, each of which evicts an older cold
/// key: the eviction loop (sketch estimates, weight lock, store removal) runs against readers that keep the access
/// pipeline (pool of 1 buffer of 1, hand-over channel, consumer, sketch lock) saturated.
fn readers_vs_eviction_strategy(thorough: bool) -> BoxedStrategy<ConcCase> {
    let hot = 0u8..3;
    let reader_op = prop_oneof![
        4 => (hot.clone(), 0u16..40).prop_map(|(k, micros)| COp::HoldRef { k, micros }),
        4 => (prop_oneof![Just(ReadKind::GetRef), Just(ReadKind::MapGetRef), Just(ReadKind::Get)], hot.clone()).prop_map(|(kind, k)| COp::Read { kind, keys: vec![k] }),
        1 => (1u8..3).prop_map(COp::Pause),
    ];
    let readers = prop::collection::vec(prop::collection::vec(reader_op, 30..=(if thorough { 200 } else { 90 })), 2..=4);
    let writer = (prop::collection::vec((20u8..120, any::<bool>()), 10..=(if thorough { 80 } else { 35 }))).prop_map(|fresh| {
        // keys 0..=2 hot, 5 and 6 cold (same weight class as the fresh ones: k % 5 == 0 -> weight 8)
        let mut ops: Vec<COp> = (0u8..3).map(|k| COp::Put { k, extra: 0, explicit: true, ttl: None, wait: true }).collect();
        ops.push(COp::Put { k: 5, extra: 0, explicit: true, ttl: None, wait: true });
        ops.push(COp::Put { k: 10, extra: 0, explicit: true, ttl: None, wait: true });
        for (k, wait) in fresh { ops.push(COp::Put { k: k - k % 5, extra: 0, explicit: true, ttl: None, wait }); }
        ops
    });
    let delay = prop_oneof![(50u16..500).prop_map(Delay::SleepUs), (1u8..4).prop_map(Delay::Yield), (100u16..3000).prop_map(Delay::Spin)];
    let site = prop_oneof![Just(Site::CreateSpaceLoop as u8), Just(Site::CacheWeightDeleteInLock as u8), Just(Site::CacheWeightDeleteAfterRemove as u8), Just(Site::PoolAdd as u8), Just(Site::ConsumerLoop as u8), Just(Site::ReadAfterStore as u8), Just(Site::WorkerAfterDequeue as u8)];
    let injection = (prop::collection::vec((site, 40u8..=255, delay), 1..=4), any::<u64>()).prop_map(|(sites, seed)| Injection { sites, seed: seed | 1 });
    // weights: keys 0,1,2 -> 8,11,14; cold keys 8 each: 33 + 16 = 49: the cache is exactly full with five keys
    let cfg = (prop_oneof![Just(1usize), Just(2)], prop_oneof![Just(HashMode::Identity), Just(HashMode::Default)], prop_oneof![Just(49i64), Just(52)])
        .prop_map(|(cmd_buf, hash, max_weight)| Cfg { counters: 1000, capacity: 16, max_weight, shards: 2, cmd_buf, pool: 1, buf: 1, tick_us: 1000, hash, weight_mode: WeightMode::Table(vec![8, 11, 14, 17, 20]), start_ns: 0, noise_readers: 0, prelude: None });
    (cfg, writer, readers, injection).prop_map(|(cfg, writer, readers, injection)| {
        let mut threads = vec![writer];
        threads.extend(readers);
        ConcCase { cfg, threads, injection, clock: Vec::new(), monitor: false, consumer: ConsumerMode::Free, sched: None }
    }).boxed()
}

fn sched_strategy(thorough: bool) -> BoxedStrategy<ConcCase> {
    let key = prop_oneof![3 => Just(0u8), 1 => Just(1u8)];
    let ttl = prop_oneof![2 => Just(None), 2 => (0u32..=2).prop_map(|s| Some(TtlSel::Secs(s))), 1 => (200u32..=900).prop_map(|m| Some(TtlSel::Millis(m)))];
    let ttl_req = prop_oneof![2 => Just(TtlReq::Keep), 2 => (0u32..=3).prop_map(|s| TtlReq::Set(TtlSel::Secs(s))), 1 => Just(TtlReq::Remove)];
    let op = prop_oneof![
        5 => (key.clone(), 0u8..3, any::<bool>(), ttl, any::<bool>()).prop_map(|(k, extra, explicit, ttl, wait)| COp::Put { k, extra, explicit, ttl, wait }),
        4 => (key.clone(), ttl_req, any::<bool>()).prop_map(|(k, ttl, wait)| COp::Upsert { k, down: 0, ttl, wait }),
        4 => (key.clone(), any::<bool>()).prop_map(|(k, wait)| COp::Delete { k, wait }),
        5 => (read_kind_strategy(), prop::collection::vec(key.clone(), 1..=2)).prop_map(|(kind, keys)| COp::Read { kind, keys }),
        3 => prop_oneof![Just(400u32), Just(1000), Just(1600), Just(2500)].prop_map(|ms| COp::Advance { ms }),
        1 => Just(COp::AwaitAll),
    ];
    let threads = prop::collection::vec(prop::collection::vec(op, 2..=(if thorough { 10 } else { 7 })), 2..=3);
    let plan = (prop::collection::vec(any::<u8>(), 8), prop::collection::vec(1u16..120, 0..=4)).prop_map(|(priorities, change_points)| SchedPlan { priorities, change_points });
    let cfg = (prop_oneof![Just(30i64), Just(4000)], prop_oneof![Just(1usize), Just(8)], prop_oneof![Just(HashMode::Identity), Just(HashMode::Constant)])
        .prop_map(|(max_weight, cmd_buf, hash)| Cfg { counters: 100, capacity: 16, max_weight, shards: 2, cmd_buf, pool: 1, buf: 2, tick_us: 200, hash, weight_mode: WeightMode::Table(vec![8, 11, 14, 17, 20]), start_ns: 0, noise_readers: 0, prelude: None });
    (cfg, threads, plan).prop_map(|(cfg, threads, plan)| ConcCase { cfg, threads, injection: Injection { sites: Vec::new(), seed: 1 }, clock: Vec::new(), monitor: false, consumer: ConsumerMode::Free, sched: Some(plan) }).boxed()
}

pub const TIGHT_OWNER_KEYS: u8 = 2;

fn tight_fit_strategy(thorough: bool) -> BoxedStrategy<ConcCase> {
    let owner_key = 0u8..TIGHT_OWNER_KEYS;
    let owner_op = prop_oneof![
        4 => owner_key.clone().prop_map(|k| COp::Put { k, extra: 0, explicit: true, ttl: None, wait: true }),
        3 => owner_key.clone().prop_map(|k| COp::Upsert { k, down: 0, ttl: TtlReq::Keep, wait: true }),
        2 => owner_key.clone().prop_map(|k| COp::Delete { k, wait: true }),
        8 => (read_kind_strategy(), prop::collection::vec(owner_key.clone(), 1..=2)).prop_map(|(kind, keys)| COp::Read { kind, keys }),
        1 => (1u8..4).prop_map(COp::Pause),
    ];
    let owner = prop::collection::vec(owner_op, 10..=(if thorough { 120 } else { 50 }));
    let universe = 4u8..=9;
    (universe, owner).prop_flat_map(move |(universe, owner)| {
        let other_key = TIGHT_OWNER_KEYS..universe;
        let ttl = prop_oneof![2 => Just(None), 3 => (100u32..=1500).prop_map(|m| Some(TtlSel::Millis(m))), 1 => (0u32..=2).prop_map(|s| Some(TtlSel::Secs(s)))];
        let other_op = prop_oneof![
            8 => (other_key.clone(), ttl, any::<bool>()).prop_map(|(k, ttl, wait)| COp::Put { k, extra: 0, explicit: true, ttl, wait }),
            3 => (other_key.clone(), any::<bool>()).prop_map(|(k, wait)| COp::Delete { k, wait }),
            3 => (other_key.clone(), prop_oneof![Just(TtlReq::Keep), (100u32..=1500).prop_map(|m| TtlReq::Set(TtlSel::Millis(m))), Just(TtlReq::Remove)], any::<bool>()).prop_map(|(k, ttl, wait)| COp::Upsert { k, down: 0, ttl, wait }),
            3 => (read_kind_strategy(), prop::collection::vec(other_key.clone(), 1..=3)).prop_map(|(kind, keys)| COp::Read { kind, keys }),
            1 => Just(COp::AwaitAll),
        ];
        let others = prop::collection::vec(prop::collection::vec(other_op, 10..=(if thorough { 120 } else { 50 })), 1..=5);
        let delay = prop_oneof![(10u16..2000).prop_map(Delay::Spin), (1u8..3).prop_map(Delay::Yield), (5u16..300).prop_map(Delay::SleepUs)];
        let site = prop_oneof![Just(Site::CacheWeightAddAfterInsert as u8), Just(Site::CacheWeightDeleteAfterRemove as u8), Just(Site::CacheWeightDeleteInLock as u8), Just(Site::CacheWeightUpdateInEntry as u8), Just(Site::MaybeAddAfterSpaceCheck as u8), Just(Site::SweeperInRetain as u8), Just(Site::WorkerAfterDequeue as u8), Just(Site::CreateSpaceLoop as u8)];
        let injection = (prop::collection::vec((site, 40u8..=255, delay), 0..=4), any::<u64>()).prop_map(|(sites, seed)| Injection { sites, seed: seed | 1 });
        let clock = prop::collection::vec((50u16..800, 200u32..1600).prop_map(|(pause_us, advance_ms)| ClockStep { pause_us, advance_ms }), 4..=20);
        let cfg = (prop_oneof![Just(1usize), Just(4), Just(64)], prop_oneof![Just(HashMode::Identity), Just(HashMode::Default), Just(HashMode::Constant)], prop_oneof![Just(100u64), Just(300)], prop_oneof![Just(2u64), Just(10), Just(1000)])
            .prop_map(move |(cmd_buf, hash, tick_us, counters)| Cfg { counters, capacity: 16, max_weight: (0..universe).map(base_weight).sum(), shards: 2, cmd_buf, pool: 1, buf: 2, tick_us, hash, weight_mode: WeightMode::Table(vec![8, 11, 14, 17, 20]), start_ns: 0, noise_readers: 0, prelude: None });
        (cfg, Just(owner), others, injection, clock).prop_map(|(cfg, owner, others, injection, clock)| {
            let mut threads = vec![owner];
            threads.extend(others);
            ConcCase { cfg, threads, injection, clock, monitor: true, consumer: ConsumerMode::Free, sched: None }
        })
    }).boxed()
}

pub fn conc_case_strategy(profile: ConcProfile, thorough: bool) -> BoxedStrategy<ConcCase> {
    if profile == ConcProfile::TightFit { return tight_fit_strategy(thorough); }
    if profile == ConcProfile::SweepRace { return sweep_race_strategy(thorough); }
    if profile == ConcProfile::TtlOwner { return ttl_owner_strategy(thorough); }
    if profile == ConcProfile::ReadersVsEviction { return readers_vs_eviction_strategy(thorough); }
    if profile == ConcProfile::Sched { return sched_strategy(thorough); }
    if profile == ConcProfile::PutContention { return put_contention_strategy(thorough); }
    if profile == ConcProfile::DeleteWindow { return delete_window_strategy(thorough); }
    if profile == ConcProfile::EvictVsSweep { return evict_vs_sweep_strategy(thorough); }
    let (max_threads, max_ops) = match profile {
        ConcProfile::Deadlock => (if thorough { 12 } else { 8 }, 40),
        ConcProfile::Reads => (if thorough { 16 } else { 8 }, if thorough { 400 } else { 150 }),
        ConcProfile::Bursts => (8, if thorough { 200 } else { 60 }),
        _ => (if thorough { 8 } else { 6 }, if thorough { 60 } else { 30 }),
    };
    let min_threads = if profile == ConcProfile::Reads || profile == ConcProfile::Bursts { 1 } else { 2 };
    let max_key: u8 = match profile { ConcProfile::Deadlock => 3, ConcProfile::Bursts => 8, _ => 6 };
    let threads = prop::collection::vec(prop::collection::vec(cop_strategy(profile, max_key), 3..=max_ops), min_threads..=max_threads);
    let limits = match profile {
        ConcProfile::Reads | ConcProfile::Bursts => prop_oneof![Just(4000i64), Just(1i64 << 40)].boxed(),
        _ => prop_oneof![Just(30i64), Just(45i64), Just(70), Just(4000)].boxed(),
    };
    let cfg = (limits, prop_oneof![Just(1usize), Just(2), Just(3), Just(8)], 1usize..=3, 1usize..=4, prop_oneof![Just(HashMode::Identity), Just(HashMode::Default), Just(HashMode::Constant), Just(HashMode::Mod2)], prop_oneof![Just(200u64), Just(500), Just(1000)], prop_oneof![Just(10u64), Just(4), Just(1000)])
        .prop_map(move |(max_weight, cmd_buf, pool, buf, hash, tick_us, counters)| {
            let (pool, buf) = if profile == ConcProfile::Reads { ([1usize, 2, 3, 32][pool % 4], [1usize, 2, 3, 64][buf % 4]) } else if profile == ConcProfile::Deadlock { (1, 1) } else { (pool, buf) };
            Cfg { counters, capacity: 16, max_weight, shards: 2, cmd_buf: if profile == ConcProfile::Deadlock { 1 } else { cmd_buf }, pool, buf, tick_us, hash, weight_mode: WeightMode::Table(vec![8, 11, 14, 17, 20]), start_ns: 0, noise_readers: 0, prelude: None }
        });
    let clock = match profile {
        ConcProfile::Reads | ConcProfile::Bursts => Just(Vec::new()).boxed(),
        _ => prop::collection::vec((50u16..2000, prop_oneof![Just(0u32), 1u32..1500, Just(1000u32)]).prop_map(|(pause_us, advance_ms)| ClockStep { pause_us, advance_ms }), 0..=8).boxed(),
    };
    let consumer = match profile {
        ConcProfile::Reads => prop_oneof![Just(ConsumerMode::Free), Just(ConsumerMode::Stalled), Just(ConsumerMode::StalledThenReleased)].boxed(),
        _ => Just(ConsumerMode::Free).boxed(),
    };
    (cfg, threads, injection_strategy(profile), clock, consumer).prop_map(move |(cfg, mut threads, injection, clock, consumer)| {
        if profile == ConcProfile::Bursts {
            // half of the key range is private to each thread (put -> delete chains whose final state is determined)
            for (thread, ops) in threads.iter_mut().enumerate() {
                let private = |k: u8| if (4..40).contains(&k) { 16 + (thread as u8 % 6) * 4 + (k - 4) % 4 } else { k };
                for op in ops.iter_mut() {
                    match op {
                        COp::Put { k, .. } | COp::Upsert { k, .. } | COp::Delete { k, .. } => *k = private(*k),
                        COp::Read { keys, .. } => for k in keys.iter_mut() { *k = private(*k); },
                        _ => {}
                    }
                }
            }
        }
        if profile == ConcProfile::General {
            // the highest key of the range is private to each thread: sole-writer keys amid shared traffic (judged by
            // check_sole_writer_final when the cache is roomy)
            for (thread, ops) in threads.iter_mut().enumerate() {
                let private = |k: u8| if k == max_key - 1 { 200 + thread as u8 } else { k };
                for op in ops.iter_mut() {
                    match op {
                        COp::Put { k, .. } | COp::Upsert { k, .. } | COp::Delete { k, .. } | COp::HoldRef { k, .. } => *k = private(*k),
                        COp::Read { keys, .. } => for k in keys.iter_mut() { *k = private(*k); },
                        _ => {}
                    }
                }
            }
        }
        ConcCase { cfg, threads, injection, clock, monitor: profile != ConcProfile::Reads, consumer, sched: None }
    }).boxed()
}

/// Checks one executed case for everything the CONC oracles cover. The first failure wins; checks of the property
/// under test come first so that its own violations are not masked by another oracle.
pub fn check_conc(case: &ConcCase, run: &ConcRun, property: &str) -> Check {
    let history = &run.history;
    let start_clock = BASE_SECS * 1_000_000_000 + case.cfg.start_ns;
    let ordered: Vec<&str> = {
        let all = ["progress", "C13", "C11", "C02", "C03", "C07", "C01", "C05", "C10", "C16", "C15", "index", "sole-writer"];
        // progress first: a blocked or crashed run has an incomplete history, which the other checkers must not judge
        let mut first: Vec<&str> = vec!["progress"];
        first.extend(all.iter().copied().filter(|name| *name == property && *name != "progress"));
        first.extend(all.iter().copied().filter(|name| *name != property && *name != "progress"));
        first
    };
    // every checker runs: a failure that concerns the property under check is reported even if an oracle of another
    // property fails as well (a broken invariant usually has several symptoms; the first one must not mask the others)
    let mut first_other: Option<Failure> = None;
    for name in ordered {
        if name == "progress" { check_progress(history)?; continue; }
        let outcome: Check = (|| { match name {
            "C13" => check_c13(history)?,
            "C11" => { check_c11(history)?; if let Some(snapshot) = &run.snapshot { check_c11_final(history, snapshot)?; } }
            "C07" => check_c07(case, history)?,
            "C03" => { if case.sched.is_none() && case.threads.first().map(|ops| ops.iter().all(|op| match op { COp::Put { k, .. } | COp::Upsert { k, .. } | COp::Delete { k, .. } => *k < TIGHT_OWNER_KEYS, _ => true })).unwrap_or(false) && case.threads.len() >= 2 && case.cfg.max_weight < 4000 { check_c03(case, history)?; } }
            "C02" => check_c02(history, start_clock, property == "C02")?,
            "C01" => check_c01(history, case.cfg.max_weight)?,
            "C05" => { if let Some(snapshot) = &run.snapshot { check_snapshot_consistency(snapshot)?; } }
            "C15" => check_c15(case, history)?,
            "C10" => { if let Some(snapshot) = &run.snapshot { check_c10(history, snapshot)?; } }
            "index" => { if let Some(snapshot) = &run.snapshot { check_index(history, snapshot)?; } }
            "sole-writer" => { if let Some(snapshot) = &run.snapshot { check_sole_writer_final(history, snapshot, start_clock)?; } }
            "C16" => { if let Some(snapshot) = &run.snapshot { check_c16(history, snapshot)?; } }
            _ => {}
        } Ok(()) })();
        if let Err(failure) = outcome {
            if failure.concerns(property) || property.is_empty() || property == "any" { return Err(failure); }
            if first_other.is_none() { first_other = Some(failure); }
        }
    }
    if let Some(failure) = first_other { return Err(failure); }
    Ok(())
}

pub type ConcNt = fn(&ConcStats) -> bool;

/// Runs a case `repeats` times (outcomes depend on OS scheduling); fails if any run fails.
pub fn conc_case_result(case: &ConcCase, property: &str, repeats: u32, stall_window: Duration, nt: ConcNt) -> (CaseResult, Option<History>) {
    let mut nontrivial = false;
    let mut classes: BTreeMap<String, u64> = BTreeMap::new();
    for _ in 0..repeats {
        let run = run_conc_case(case, stall_window);
        let stats = conc_stats(case, &run.history);
        if nt(&stats) { nontrivial = true; }
        for (name, present) in [
            ("read_overlapping_write", stats.overlapping_read_write), ("read_after_completed_overwrite", stats.read_after_completed_overwrite),
            ("with_injected_delay", stats.delays > 0), ("two_sites_delayed", stats.distinct_sites_delayed >= 2), ("send_blocked_on_full_queue", stats.queue_full_sends),
            ("commands_in_flight_from_two_threads", stats.concurrent_in_flight), ("with_shutting_down_ack", stats.shutting_down_acks > 0), ("with_buffer_handover", stats.handovers > 0),
            ("with_dropped_buffer", stats.drops > 0), ("with_clock_thread", stats.sweeps_during_run), ("with_space_rejection", stats.evicted_or_rejected), ("unawaited_same_key_writes", stats.unawaited_same_key),
            ("controlled_schedule_with_4_or_more_threads", stats.sched_threads >= 4),
            ("put_on_settled_key", stats.puts_on_settled_keys > 0), ("sole_writer_put_then_delete", stats.sole_writer_put_then_delete),
            ("eviction_loop_ran", stats.eviction_loop_delayed), ("sweeper_collected_during_run", stats.swept_during_run),
            ("read_between_delete_return_and_ack", stats.read_between_delete_and_ack), ("guard_held_while_delete_called", stats.guard_held_during_delete),
        ] {
            let slot = classes.entry(name.to_string()).or_insert(0);
            if present { *slot = 1; }
        }
        if let Err(failure) = check_conc(case, &run, property) {
            return (CaseResult { failure: Some(failure), nontrivial: false, classes, suppressed: BTreeMap::new() }, Some(run.history));
        }
    }
    (CaseResult { failure: None, nontrivial, classes, suppressed: BTreeMap::new() }, None)
}
