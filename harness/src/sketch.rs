//! SKETCH engine (C14): differential tests of the packed 4-bit counter rows, the count-min sketch and TinyLFU
//! against an unpacked reference (one u8 per counter), through the thin `verif_hooks` wrappers.

use std::collections::BTreeMap;

use proptest::prelude::*;
use serde::{Deserialize, Serialize};
use tinylfu_cached::cache::verif::{VerifFrequencyCounter, VerifRow, VerifTinyLFU};

use crate::ensure;
use crate::model::{Check, Failure};
use crate::runner::CaseResult;

#[derive(Clone, Debug, PartialEq, Eq, Hash, Serialize, Deserialize)]
pub enum HashSel {
    /// one of a few hot keys
    Hot(u8),
    Distinct(u64),
    /// 0, 1, u64::MAX, 1 << 63, ...
    Extreme(u8),
    /// hot key + j * total_counters: same position in every row
    Collide { base: u8, j: u16 },
    /// hot key ^ 1: the other nibble of the same byte in every row
    Neighbour { base: u8 },
}

#[derive(Clone, Debug, PartialEq, Eq, Hash, Serialize, Deserialize)]
pub enum SketchOp {
    Access(HashSel),
    /// many accesses of one hash (drives counters into saturation)
    Burst(HashSel, u8),
    /// several accesses handed over as ONE batch (as a drained access buffer is); TinyLFU level, elsewhere a sequence
    Batch(Vec<HashSel>),
    Estimate(HashSel),
    /// FrequencyCounter level only
    Reset,
    Clear,
}

#[derive(Clone, Debug, PartialEq, Eq, Hash, Serialize, Deserialize)]
pub enum SketchLevel {
    Row,
    Counter,
    TinyLfu,
}

#[derive(Clone, Debug, PartialEq, Eq, Hash, Serialize, Deserialize)]
pub struct SketchCase {
    pub level: SketchLevel,
    pub counters: u64,
    /// Row level: initial bytes
    pub row: Vec<u8>,
    pub ops: Vec<SketchOp>,
}

fn hot(index: u8) -> u64 { 0x9E37_79B9_7F4A_7C15u64.wrapping_mul(index as u64 % 6 + 1) }

fn resolve(sel: &HashSel, total: u64) -> u64 {
    match sel {
        HashSel::Hot(index) => hot(*index),
        HashSel::Distinct(value) => *value,
        HashSel::Extreme(index) => [0u64, 1, u64::MAX, 1 << 63, u64::MAX - 1, (1 << 63) - 1, 2, 3][(*index % 8) as usize],
        HashSel::Collide { base, j } => hot(*base).wrapping_add((*j as u64).wrapping_mul(total)),
        HashSel::Neighbour { base } => hot(*base) ^ 1,
    }
}

/// Unpacked reference of one row.
fn unpack(bytes: &[u8]) -> Vec<u8> {
    let mut counters = Vec::with_capacity(bytes.len() * 2);
    for byte in bytes { counters.push(byte & 0x0f); counters.push(byte >> 4); }
    counters
}

#[derive(Default, Clone, Debug)]
pub struct SketchStats {
    pub saturated: u32,
    pub both_nibbles: u32,
    pub agings: u32,
    pub non_power_of_two: bool,
    pub ops: u32,
}

fn check_row_case(case: &SketchCase, stats: &mut SketchStats) -> Check {
    let mut row = VerifRow::new(case.row.clone());
    let mut reference = unpack(&case.row);
    let positions = reference.len() as u64;
    if positions == 0 { return Ok(()); }
    let mut touched: BTreeMap<usize, u8> = BTreeMap::new();
    for op in &case.ops {
        stats.ops += 1;
        match op {
            SketchOp::Batch(_) => {}
            SketchOp::Access(sel) | SketchOp::Burst(sel, _) => {
                let times = if let SketchOp::Burst(_, times) = op { *times as u32 } else { 1 };
                let position = resolve(sel, positions) % positions;
                for _ in 0..times {
                    row.increment_at(position);
                    let counter = &mut reference[position as usize];
                    if *counter < 15 { *counter += 1; } else { stats.saturated += 1; }
                    *touched.entry(position as usize / 2).or_insert(0) |= 1 << (position & 1);
                    let got = unpack(&row.bytes());
                    ensure!(got == reference, "C14", "C14/row/increment", "after increment_at({}) the row holds {:?}, reference {:?}", position, got, reference);
                }
            }
            SketchOp::Estimate(sel) => {
                let position = resolve(sel, positions) % positions;
                let got = row.get_at(position);
                ensure!(got == reference[position as usize], "C14", "C14/row/get", "get_at({}) = {}, reference {}", position, got, reference[position as usize]);
            }
            SketchOp::Reset => {
                row.half_counters();
                for counter in reference.iter_mut() { *counter /= 2; }
                let got = unpack(&row.bytes());
                ensure!(got == reference, "C14", "C14/row/halve", "after half_counters the row holds {:?}, reference {:?}", got, reference);
                stats.agings += 1;
            }
            SketchOp::Clear => {
                row.clear();
                for counter in reference.iter_mut() { *counter = 0; }
                ensure!(unpack(&row.bytes()) == reference, "C14", "C14/row/clear", "row not zero after clear");
            }
        }
    }
    if touched.values().any(|mask| *mask == 3) { stats.both_nibbles += 1; }
    Ok(())
}

struct ReferenceSketch {
    rows: Vec<Vec<u8>>,
    seeds: [u64; 4],
    total: u64,
}

impl ReferenceSketch {
    fn increment(&mut self, hash: u64, stats: &mut SketchStats, touched: &mut BTreeMap<(usize, usize), u8>) {
        for row in 0..4 {
            let position = ((hash ^ self.seeds[row]) % self.total) as usize;
            let counter = &mut self.rows[row][position];
            if *counter < 15 { *counter += 1; } else { stats.saturated += 1; }
            *touched.entry((row, position / 2)).or_insert(0) |= 1 << (position & 1);
        }
    }
    fn estimate(&self, hash: u64) -> u8 {
        (0..4).map(|row| self.rows[row][((hash ^ self.seeds[row]) % self.total) as usize]).min().unwrap()
    }
    fn halve(&mut self) { for row in self.rows.iter_mut() { for counter in row.iter_mut() { *counter /= 2; } } }
    fn clear(&mut self) { for row in self.rows.iter_mut() { for counter in row.iter_mut() { *counter = 0; } } }
}

fn compare_rows(got: &[Vec<u8>], reference: &ReferenceSketch, what: &str) -> Check {
    ensure!(got.len() == 4, "C14", "C14/shape", "{} rows", got.len());
    for row in 0..4 {
        let unpacked = unpack(&got[row]);
        ensure!(unpacked.len() as u64 == reference.total, "C14", "C14/shape", "row {} holds {} counters but positions are taken modulo {}", row, unpacked.len(), reference.total);
        if unpacked != reference.rows[row] {
            let position = unpacked.iter().zip(reference.rows[row].iter()).position(|(a, b)| a != b).unwrap();
            return Err(Failure::new("C14", "C14/counter/differs", format!("{}: row {} position {} holds {} but the reference holds {}", what, row, position, unpacked[position], reference.rows[row][position])));
        }
    }
    Ok(())
}

fn check_counter_case(case: &SketchCase, stats: &mut SketchStats) -> Check {
    let counter = std::panic::catch_unwind(|| VerifFrequencyCounter::new(case.counters));
    let mut counter = match counter {
        Ok(counter) => counter,
        Err(_) => return Err(Failure::new("C14", "C14/construct-panic", format!("FrequencyCounter::new({}) panicked", case.counters))),
    };
    let total = counter.total_counters();
    ensure!(total >= case.counters && total >= 2, "C14", "C14/shape", "{} counters requested, {} positions per row", case.counters, total);
    stats.non_power_of_two = !case.counters.is_power_of_two();
    let mut reference = ReferenceSketch { rows: vec![vec![0u8; total as usize]; 4], seeds: counter.seeds(), total };
    compare_rows(&counter.rows(), &reference, "after construction")?;
    let mut touched = BTreeMap::new();
    for op in &case.ops {
        stats.ops += 1;
        match op {
            SketchOp::Batch(_) => {}
            SketchOp::Access(sel) | SketchOp::Burst(sel, _) => {
                let times = if let SketchOp::Burst(_, times) = op { *times as u32 } else { 1 };
                let hash = resolve(sel, total);
                for _ in 0..times {
                    let ok = std::panic::catch_unwind(std::panic::AssertUnwindSafe(|| counter.increment(hash)));
                    ensure!(ok.is_ok(), "C14", "C14/increment-panic", "increment({:#x}) panicked with {} counters", hash, case.counters);
                    reference.increment(hash, stats, &mut touched);
                }
                compare_rows(&counter.rows(), &reference, &format!("after increment({:#x})", hash))?;
                let estimate = counter.estimate(hash);
                ensure!(estimate == reference.estimate(hash), "C14", "C14/estimate-not-min", "estimate({:#x}) = {}, minimum over the rows is {}", hash, estimate, reference.estimate(hash));
            }
            SketchOp::Estimate(sel) => {
                let hash = resolve(sel, total);
                let estimate = counter.estimate(hash);
                ensure!(estimate == reference.estimate(hash), "C14", "C14/estimate-not-min", "estimate({:#x}) = {}, minimum over the rows is {}", hash, estimate, reference.estimate(hash));
            }
            SketchOp::Reset => {
                counter.reset();
                reference.halve();
                stats.agings += 1;
                compare_rows(&counter.rows(), &reference, "after reset (halving)")?;
            }
            SketchOp::Clear => {
                counter.clear();
                reference.clear();
                compare_rows(&counter.rows(), &reference, "after clear")?;
            }
        }
    }
    if touched.values().any(|mask| *mask == 3) { stats.both_nibbles += 1; }
    Ok(())
}

fn check_tiny_case(case: &SketchCase, stats: &mut SketchStats) -> Check {
    let tiny = std::panic::catch_unwind(|| VerifTinyLFU::new(case.counters));
    let mut tiny = match tiny {
        Ok(tiny) => tiny,
        Err(_) => return Err(Failure::new("C14", "C14/construct-panic", format!("TinyLFU::new({}) panicked", case.counters))),
    };
    let total = tiny.total_counters();
    stats.non_power_of_two = !case.counters.is_power_of_two();
    let mut reference = ReferenceSketch { rows: vec![vec![0u8; total as usize]; 4], seeds: tiny.seeds(), total };
    ensure!(tiny.reset_counters_at() == case.counters, "C14", "C14/age-threshold", "ageing threshold {} for {} configured counters", tiny.reset_counters_at(), case.counters);
    let mut window: BTreeMap<u64, u32> = BTreeMap::new();
    let mut seen: Vec<u64> = Vec::new();
    let mut since_ageing: u64 = 0;
    let mut touched = BTreeMap::new();
    for op in &case.ops {
        stats.ops += 1;
        match op {
            SketchOp::Access(sel) | SketchOp::Burst(sel, _) => {
                let times = if let SketchOp::Burst(_, times) = op { *times as u32 } else { 1 };
                let hash = resolve(sel, total);
                for _ in 0..times {
                    // the first-access filter has random keys: observe its answer, then predict everything else
                    let in_filter = tiny.door_keeper_has(hash);
                    let ok = std::panic::catch_unwind(std::panic::AssertUnwindSafe(|| tiny.increment_access(vec![hash])));
                    ensure!(ok.is_ok(), "C14", "C14/increment-panic", "increment_access({:#x}) panicked with {} counters", hash, case.counters);
                    if in_filter { reference.increment(hash, stats, &mut touched); }
                    since_ageing += 1;
                    *window.entry(hash).or_insert(0) += 1;
                    if !seen.contains(&hash) { seen.push(hash); }
                    if since_ageing >= case.counters {
                        // exactly now the sketch must age
                        reference.halve();
                        since_ageing = 0;
                        window.clear();
                        stats.agings += 1;
                        ensure!(tiny.total_increments() == 0, "C14", "C14/age/not-at-threshold", "after {} recorded accesses (threshold {}) the sketch did not age: total_increments = {}", case.counters, case.counters, tiny.total_increments());
                        compare_rows(&tiny.rows(), &reference, "after ageing (every counter halved, rounded down)")?;
                        for hash in &seen {
                            ensure!(!tiny.door_keeper_has(*hash), "C14", "C14/age/filter-not-cleared", "after ageing the first-access filter still contains {:#x}", hash);
                        }
                    } else {
                        ensure!(tiny.total_increments() == since_ageing, "C14", "C14/age/early-or-miscounted", "{} accesses recorded since the last ageing but total_increments = {} (threshold {})", since_ageing, tiny.total_increments(), case.counters);
                        compare_rows(&tiny.rows(), &reference, &format!("after access of {:#x}", hash))?;
                        ensure!(tiny.door_keeper_has(hash), "C14", "C14/filter-lost", "{:#x} was accessed in this window but the first-access filter does not contain it", hash);
                    }
                }
                let estimate = tiny.estimate(hash) as u32;
                let recorded = window.get(&hash).copied().unwrap_or(0);
                ensure!(estimate >= recorded.min(15), "C14", "C14/under-count", "estimate({:#x}) = {} but {} accesses were recorded in this ageing window", hash, estimate, recorded);
                ensure!(estimate <= 16, "C14", "C14/over-max", "estimate({:#x}) = {} exceeds the sketch maximum", hash, estimate);
            }
            SketchOp::Estimate(sel) => {
                let hash = resolve(sel, total);
                let estimate = tiny.estimate(hash) as u32;
                let recorded = window.get(&hash).copied().unwrap_or(0);
                ensure!(estimate >= recorded.min(15), "C14", "C14/under-count", "estimate({:#x}) = {} but {} accesses were recorded in this ageing window", hash, estimate, recorded);
                ensure!(estimate <= 16, "C14", "C14/over-max", "estimate({:#x}) = {} exceeds the sketch maximum", hash, estimate);
                let expected = reference.estimate(hash) as u32 + tiny.door_keeper_has(hash) as u32;
                ensure!(estimate == expected, "C14", "C14/estimate-composition", "estimate({:#x}) = {}, sketch minimum {} + filter {}", hash, estimate, reference.estimate(hash), tiny.door_keeper_has(hash));
            }
            SketchOp::Batch(selectors) => {
                // one hand-over of several accesses: the first-access filter cannot be observed between the elements, so the
                // counters are not predicted exactly here (the reference is re-synchronised afterwards); what must hold exactly is
                // the ageing arithmetic (ageing happens at the access that completes the window, wherever it falls in the batch)
                // and the no-under-count bound for the accesses recorded since that ageing
                let hashes: Vec<u64> = selectors.iter().map(|sel| resolve(sel, total)).collect();
                if hashes.is_empty() { continue; }
                let ok = std::panic::catch_unwind(std::panic::AssertUnwindSafe(|| tiny.increment_access(hashes.clone())));
                ensure!(ok.is_ok(), "C14", "C14/increment-panic", "increment_access({} hashes) panicked with {} counters", hashes.len(), case.counters);
                let mut aged = false;
                for hash in &hashes {
                    since_ageing += 1;
                    *window.entry(*hash).or_insert(0) += 1;
                    if !seen.contains(hash) { seen.push(*hash); }
                    if since_ageing >= case.counters { since_ageing = 0; window.clear(); stats.agings += 1; aged = true; }
                }
                ensure!(tiny.total_increments() == since_ageing, "C14", "C14/age/batch-miscounted", "a batch of {} accesses was recorded{}; {} accesses belong to the current ageing window (threshold {}) but total_increments = {}", hashes.len(), if aged { " and completed an ageing window inside the batch" } else { "" }, since_ageing, case.counters, tiny.total_increments());
                for (hash, recorded) in &window {
                    let estimate = tiny.estimate(*hash) as u32;
                    ensure!(estimate >= (*recorded).min(15), "C14", "C14/under-count", "after a batch of {} accesses{} estimate({:#x}) = {} but {} accesses were recorded in the current ageing window", hashes.len(), if aged { " (which completed an ageing window)" } else { "" }, hash, estimate, recorded);
                    ensure!(estimate <= 16, "C14", "C14/over-max", "estimate({:#x}) = {} exceeds the sketch maximum", hash, estimate);
                }
                // re-synchronise the exact reference with the implementation
                let rows = tiny.rows();
                for row in 0..4 { reference.rows[row] = unpack(&rows[row]); }
            }
            SketchOp::Reset => {}
            SketchOp::Clear => {
                tiny.clear();
                reference.clear();
                window.clear();
                since_ageing = 0;
                compare_rows(&tiny.rows(), &reference, "after clear")?;
                ensure!(tiny.total_increments() == 0, "C14", "C14/clear", "total_increments = {} after clear", tiny.total_increments());
            }
        }
    }
    if touched.values().any(|mask| *mask == 3) { stats.both_nibbles += 1; }
    Ok(())
}

pub fn run_sketch_case(case: &SketchCase) -> (SketchStats, Option<Failure>) {
    let mut stats = SketchStats::default();
    let flattened;
    let case = if case.level != SketchLevel::TinyLfu && case.ops.iter().any(|op| matches!(op, SketchOp::Batch(_))) {
        let ops = case.ops.iter().flat_map(|op| match op { SketchOp::Batch(hashes) => hashes.iter().cloned().map(SketchOp::Access).collect::<Vec<_>>(), other => vec![other.clone()] }).collect();
        flattened = SketchCase { ops, ..case.clone() };
        &flattened
    } else { case };
    let result = match case.level {
        SketchLevel::Row => check_row_case(case, &mut stats),
        SketchLevel::Counter => check_counter_case(case, &mut stats),
        SketchLevel::TinyLfu => check_tiny_case(case, &mut stats),
    };
    (stats, result.err())
}

pub fn sketch_case_result(case: &SketchCase) -> CaseResult {
    let (stats, failure) = run_sketch_case(case);
    let mut classes = BTreeMap::new();
    classes.insert("saturates_a_counter".to_string(), (stats.saturated > 0) as u64);
    classes.insert("both_nibbles_of_one_byte".to_string(), (stats.both_nibbles > 0) as u64);
    classes.insert("crosses_ageing_threshold".to_string(), (stats.agings > 0) as u64);
    classes.insert("non_power_of_two_counters".to_string(), stats.non_power_of_two as u64);
    classes.insert(format!("level_{:?}", case.level), 1);
    CaseResult { nontrivial: failure.is_none() && (stats.saturated > 0 || stats.both_nibbles > 0 || stats.agings > 0), classes, suppressed: BTreeMap::new(), failure }
}

/// Exhaustive part: all 256 byte values x both nibbles for increment / get / halve, with a sentinel neighbour byte.
pub fn exhaustive_byte_table() -> (u64, Option<Failure>) {
    let mut evaluations = 0;
    for byte in 0..=255u8 {
        for sentinel in [0x00u8, 0xA5, 0xFF] {
            for position in 0..2u64 {
                let case = SketchCase { level: SketchLevel::Row, counters: 4, row: vec![byte, sentinel], ops: vec![SketchOp::Estimate(HashSel::Distinct(position)), SketchOp::Access(HashSel::Distinct(position)), SketchOp::Access(HashSel::Distinct(position)), SketchOp::Reset, SketchOp::Estimate(HashSel::Distinct(position ^ 1))] };
                evaluations += 1;
                if let (_, Some(mut failure)) = run_sketch_case(&case) {
                    failure.message = format!("byte {:#04x}, sentinel {:#04x}, nibble {}: {}", byte, sentinel, position, failure.message);
                    return (evaluations, Some(failure));
                }
                // and with the byte in second place (neighbour before it)
                let case = SketchCase { row: vec![sentinel, byte], ops: vec![SketchOp::Access(HashSel::Distinct(2 + position)), SketchOp::Estimate(HashSel::Distinct(2 + position)), SketchOp::Reset], ..case };
                evaluations += 1;
                if let (_, Some(mut failure)) = run_sketch_case(&case) {
                    failure.message = format!("byte {:#04x} (second), sentinel {:#04x}, nibble {}: {}", byte, sentinel, position, failure.message);
                    return (evaluations, Some(failure));
                }
            }
        }
    }
    (evaluations, None)
}

fn hash_sel_strategy() -> BoxedStrategy<HashSel> {
    prop_oneof![
        5 => (0u8..6).prop_map(HashSel::Hot),
        3 => any::<u64>().prop_map(HashSel::Distinct),
        1 => (0u8..8).prop_map(HashSel::Extreme),
        2 => ((0u8..6), 0u16..64).prop_map(|(base, j)| HashSel::Collide { base, j }),
        2 => (0u8..6).prop_map(|base| HashSel::Neighbour { base }),
    ].boxed()
}

pub fn sketch_case_strategy(max_ops: usize) -> BoxedStrategy<SketchCase> {
    let op = prop_oneof![
        10 => hash_sel_strategy().prop_map(SketchOp::Access),
        3 => (hash_sel_strategy(), 1u8..=40).prop_map(|(sel, times)| SketchOp::Burst(sel, times)),
        4 => prop::collection::vec(hash_sel_strategy(), 2..=12).prop_map(SketchOp::Batch),
        4 => hash_sel_strategy().prop_map(SketchOp::Estimate),
        1 => Just(SketchOp::Reset),
        1 => Just(SketchOp::Clear),
    ];
    let counters = prop_oneof![
        4 => prop_oneof![Just(1u64), Just(2), Just(3), Just(5), Just(17), Just(100), Just(1000)],
        3 => (0u32..=16, -1i64..=1).prop_map(|(power, delta)| ((1i64 << power) + delta).max(1) as u64),
        3 => 1u64..=300,
    ];
    let level = prop_oneof![1 => Just(SketchLevel::Row), 3 => Just(SketchLevel::Counter), 4 => Just(SketchLevel::TinyLfu)];
    (level, counters, prop::collection::vec(any::<u8>(), 1..=8), prop::collection::vec(op, 1..=max_ops))
        .prop_map(|(level, counters, row, ops)| SketchCase { level, counters, row, ops }).boxed()
}
