use cached_verif::conc::*;
use cached_verif::runner::*;
fn main() {
    cached_verif::base::install_panic_hook();
    let path = std::env::args().nth(1).unwrap();
    let replay = read_replay(&path).unwrap();
    let case: ConcCase = decode_case(&replay.case).unwrap();
    for _ in 0..5 {
        let run = run_conc_case(&case, std::time::Duration::from_secs(10));
        println!("trace {} recs {} shutdown {} blocked {:?} check {:?}", run.history.trace.len(), run.history.recs.len(), run.history.shutdown_called, run.history.blocked, check_conc(&case, &run, "C13").err().map(|f| f.tag));
    }
}
