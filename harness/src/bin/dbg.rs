use cached_verif::conc::*;
use cached_verif::runner::*;
fn main() {
    cached_verif::base::install_panic_hook();
    if std::env::args().nth(1).as_deref() == Some("sweep-vs-reput") {
        let mut fails = 0;
        for _ in 0..20 { if let Some(failure) = sweep_vs_reput_scenario(30) { fails += 1; if fails == 1 { println!("{}", failure.message); } } }
        println!("{} of 20 failed", fails);
        return;
    }
    if std::env::args().nth(1).as_deref() == Some("phantom-weight") {
        let mut fails = 0;
        for _ in 0..20 { if let Some(failure) = phantom_weight_scenario(20) { fails += 1; if fails == 1 { println!("{}", failure.message); } } }
        println!("{} of 20 failed", fails);
        return;
    }
    if std::env::args().nth(1).as_deref() == Some("stats-stress") {
        let started = std::time::Instant::now();
        let mut fails = 0;
        for _ in 0..5 { if let Some(failure) = stats_stress_scenario(20_000, 2) { fails += 1; if fails == 1 { println!("{}", failure.message); } } }
        println!("{} of 5 failed in {:?}", fails, started.elapsed());
        return;
    }
    if std::env::args().nth(1).as_deref() == Some("pressure") {
        let keys: u32 = std::env::args().nth(2).and_then(|s| s.parse().ok()).unwrap_or(500);
        let readers: u8 = std::env::args().nth(3).and_then(|s| s.parse().ok()).unwrap_or(1);
        let started = std::time::Instant::now();
        let case = cached_verif::volume::PressureCase { keys, shards: 16, capacity: 16, cmd_buf: 64, readers, fresh: 2000, weight: std::env::args().nth(4).and_then(|s| s.parse().ok()).unwrap_or(1) };
        let (observations, failure) = cached_verif::volume::run_pressure_case(&case);
        println!("{} observations, failure {:?}, {:?}", observations, failure.map(|f| f.message), started.elapsed());
        return;
    }
    let path = std::env::args().nth(1).unwrap();
    let n: usize = std::env::args().nth(2).and_then(|s| s.parse().ok()).unwrap_or(50);
    let replay = read_replay(&path).unwrap();
    let case: ConcCase = decode_case(&replay.case).unwrap();
    let mut fails = 0;
    for i in 0..n {
        let run = run_conc_case(&case, std::time::Duration::from_secs(10));
        if let Err(f) = check_conc(&case, &run, &replay.property) {
            fails += 1;
            if fails <= 2 {
                println!("run {}: {} {}", i, f.tag, &f.message[..f.message.len().min(300)]);
                let key: u8 = std::env::args().nth(3).and_then(|s| s.parse().ok()).unwrap_or(0);
                let mut acks = std::collections::HashMap::new();
                for rec in &run.history.recs {
                    if let Outcome::Write { key: k, ack, kind, status, in_place, ttl_ns, seen_done, immediate, .. } = &rec.outcome {
                        if *k == key { println!("  rec t{} op{} [{}..{}] seen {} {} imm {:?} status {:?} in_place {:?} ttl {:?} ack {:#x}", rec.thread, rec.index, rec.start, rec.end, seen_done, kind, immediate, status, in_place, ttl_ns, ack); acks.insert(*ack, (rec.thread, rec.index)); }
                    }
                }
                for event in &run.history.trace {
                    match event {
                        TraceEvent::Executed { ack, kind, status, begin, end, .. } => { if let Some(who) = acks.get(ack) { println!("  exec [{}..{}] {} {:?} of t{} op{}", begin, end, kind, status, who.0, who.1); } }
                        TraceEvent::Swept { id, stamp } => println!("  swept id {} at {}", id, stamp),
                        TraceEvent::Admission { id, weight, space_left } => println!("  admission id {} w {} free {}", id, weight, space_left),
                        TraceEvent::Evicted { incoming, victim } => println!("  evicted victim {} for incoming {}", victim, incoming),
                        _ => {}
                    }
                }
                println!("  clock {:?} rotation_start {}", run.history.clock_log, run.history.rotation_start_ns);
                if let Some(snapshot) = &run.snapshot { println!("  store {:?}\n  weights {:?}\n  ttl {:?}", snapshot.store.iter().map(|e| (e.key, e.id, e.expire_after.map(cached_verif::base::since_epoch))).collect::<Vec<_>>(), snapshot.weights.iter().map(|e| (e.id, e.key, e.weight)).collect::<Vec<_>>(), snapshot.ttl.iter().map(|e| (e.id, cached_verif::base::since_epoch(e.expire_after), e.shard)).collect::<Vec<_>>()); }
            }
        }
    }
    println!("{} of {} runs failed", fails, n);
}
