use std::time::Instant;

use cached_verif::checks::*;
use cached_verif::runner::*;
use cached_verif::{base, engines};

fn usage() -> ! {
    eprintln!("usage: check <C01..C18> [--tier quick|thorough] [--replay FILE] [--workers N]\n       env: VERIF_SEED (default 1), VERIF_TIER, VERIF_DIR (default /verif)");
    std::process::exit(2);
}

fn main() {
    let args: Vec<String> = std::env::args().skip(1).collect();
    if args.is_empty() { usage(); }
    let property = args[0].clone();
    let mut tier = std::env::var("VERIF_TIER").unwrap_or_else(|_| "quick".to_string());
    let mut replay: Option<String> = None;
    let mut workers: usize = std::thread::available_parallelism().map(|n| n.get()).unwrap_or(8).min(16);
    let mut index = 1;
    while index < args.len() {
        match args[index].as_str() {
            "--tier" => { tier = args.get(index + 1).cloned().unwrap_or_else(|| usage()); index += 2; }
            "quick" | "thorough" => { tier = args[index].clone(); index += 1; }
            "--replay" => { replay = Some(args.get(index + 1).cloned().unwrap_or_else(|| usage())); index += 2; }
            "--workers" => { workers = args.get(index + 1).and_then(|n| n.parse().ok()).unwrap_or_else(|| usage()); index += 2; }
            "--verbose-panics" => { base::VERBOSE_PANICS.store(true, std::sync::atomic::Ordering::Relaxed); index += 1; }
            _ => usage(),
        }
    }
    if tier != "quick" && tier != "thorough" { usage(); }
    let seed: u64 = std::env::var("VERIF_SEED").ok().and_then(|seed| seed.parse().ok()).unwrap_or(1);
    base::install_panic_hook();

    if let Some(path) = replay {
        std::process::exit(engines::replay_file(&property, &path));
    }

    let known = load_known_findings();
    let context = CheckContext {
        property: property.clone(),
        tier: tier.clone(),
        seed,
        workers,
        known: known.clone(),
        stall_is_violation: matches!(property.as_str(), "C11" | "C12" | "C13" | "C15" | "C17" | "C18"),
    };
    let started = Instant::now();
    let outcome = engines::run_check(&context);
    let wall = started.elapsed().as_secs_f64();

    let mut known_hit: std::collections::BTreeMap<String, u64> = Default::default();
    let mut inconclusive = 0;
    for report in &outcome.reports {
        for (id, count) in &report.known_findings_hit { *known_hit.entry(id.clone()).or_insert(0) += count; }
        inconclusive += report.inconclusive;
        println!("[{}] campaign {:<14} engine {:<6} evaluations {:>8} distinct non-trivial {:>8} wall {:>6.1}s{}", property, report.name, report.engine, report.evaluations, report.distinct_nontrivial, report.wall_s,
            if report.other_property_failures.is_empty() { String::new() } else { format!("  (oracles of other properties failed: {:?})", report.other_property_failures) });
    }
    for finding in known.iter().filter(|finding| finding.also.contains(&property) && finding.status == "open") {
        if let Some(count) = known_hit.get(&finding.id) {
            println!("KNOWN-FINDING: property={} {} [{}; listed under {}; tags {:?}; met {} times]", property, finding.what, finding.id, finding.property, finding.tags, count);
        }
    }
    for finding in known.iter().filter(|finding| finding.property == property && finding.status == "open") {
        match known_hit.get(&finding.id) {
            Some(count) => println!("KNOWN-FINDING: property={} {} [{}; tags {:?}; reproduced {} times by the probe]", property, finding.what, finding.id, finding.tags, count),
            None => println!("NOTE: known finding {} ({}) was not reproduced by its probe in this run", finding.id, finding.tags.join(", ")),
        }
    }
    write_evidence(&context, &outcome.reports, outcome.violations.len() as u64, &outcome.assumptions, wall, outcome.extra.clone());
    if !outcome.violations.is_empty() {
        for violation in &outcome.violations {
            println!("VIOLATION property={} replay={}", property, violation.replay_path);
            println!("  cause tag: {}", violation.failure.tag);
            println!("  {}", violation.failure.message);
        }
        std::process::exit(1);
    }
    if outcome.reports.is_empty() {
        eprintln!("no check is registered for {}", property);
        std::process::exit(2);
    }
    if inconclusive > 0 {
        println!("INCONCLUSIVE: {} cases hit the watchdog (something did not complete; not a violation of {})", inconclusive, property);
        std::process::exit(2);
    }
    println!("OK property={} tier={} seed={} wall={:.1}s", property, tier, seed, wall);
}
