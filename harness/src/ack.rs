//! ACK engine (C12): the harness owns the schedule of one completing thread and one or two polling tasks at
//! the granularity of the acknowledgement's shared-memory accesses (schedule points in `done()` and `poll()`),
//! serialising the threads through a turnstile. Executions are a deterministic function of the choice vector.
//! Plus an end-to-end stress layer on a real cache (no schedule control).

use std::collections::BTreeMap;
use std::sync::atomic::Ordering;
use std::sync::{Arc, Condvar, Mutex};
use std::time::{Duration, Instant};

use proptest::prelude::*;
use serde::{Deserialize, Serialize};
use tinylfu_cached::cache::command::acknowledgement::CommandAcknowledgement;
use tinylfu_cached::cache::verif::{AckHandler, AckSite};

use crate::base::*;
use crate::ensure;
use crate::model::{Check, Failure};
use crate::runner::CaseResult;

#[derive(Clone, Debug, PartialEq, Eq, Hash, Serialize, Deserialize)]
pub struct PollSpec {
    /// false: reuse the task's current waker; true: poll with a fresh waker
    pub new_waker: bool,
}

#[derive(Clone, Debug, PartialEq, Eq, Hash, Serialize, Deserialize)]
pub struct AckCase {
    pub status: St,
    /// polls of each polling task, in order
    pub tasks: Vec<Vec<PollSpec>>,
    /// schedule: at each decision the n-th enabled thread (mapped monotonically) runs one step
    pub choices: Vec<u8>,
}

#[derive(Clone, Copy, Debug, PartialEq, Eq)]
enum TState {
    Running,
    At(AckSite),
    Finished,
}

struct CtlState {
    threads: Vec<TState>,
    granted: Option<usize>,
    inside: Vec<bool>,
    seq: u64,
    log: Vec<LogEntry>,
    done_returned_at: Option<u64>,
    wake_step_at: Option<u64>,
}

#[derive(Clone, Debug, Serialize)]
pub struct LogEntry {
    pub thread: usize,
    pub waker: usize,
    pub start_seq: u64,
    pub end_seq: u64,
    pub result: Option<St>,
    pub wakes_at_return: u64,
    /// steps of done() that had been executed when this poll started
    pub done_steps_before: u8,
}

struct Ctl {
    state: Mutex<CtlState>,
    condvar: Condvar,
}

thread_local! {
    static MY_INDEX: std::cell::Cell<usize> = std::cell::Cell::new(usize::MAX);
}

impl Ctl {
    fn reach(&self, site: AckSite) {
        let me = MY_INDEX.with(|index| index.get());
        if me == usize::MAX { return; }
        let mut state = self.state.lock().unwrap();
        if site == AckSite::Done(3) {
            // non-blocking: done() is about to return
            state.done_returned_at = Some(state.seq);
            return;
        }
        state.threads[me] = TState::At(site);
        self.condvar.notify_all();
        while state.granted != Some(me) { state = self.condvar.wait(state).unwrap(); }
        state.granted = None;
        state.threads[me] = TState::Running;
        self.condvar.notify_all();
    }
}

#[derive(Clone, Debug, Default, Serialize)]
pub struct AckRun {
    pub log: Vec<LogEntry>,
    pub branching: Vec<u8>,
    pub taken: Vec<u8>,
    pub poll_between_done_steps: bool,
    pub stalled: bool,
}

/// Executes one schedule. `choose(enabled_count, decision_index) -> index into enabled`.
pub fn run_schedule(status: St, tasks: &[Vec<PollSpec>], mut choose: impl FnMut(usize, usize) -> usize) -> (AckRun, Vec<u64>) {
    let thread_count = tasks.len() + 1;
    let ctl = Arc::new(Ctl {
        state: Mutex::new(CtlState { threads: vec![TState::Running; thread_count], granted: None, inside: vec![false; thread_count], seq: 0, log: Vec::new(), done_returned_at: None, wake_step_at: None }),
        condvar: Condvar::new(),
    });
    let handler: AckHandler = { let ctl = ctl.clone(); Arc::new(move |site| ctl.reach(site)) };
    let ack = CommandAcknowledgement::verif_new(Some(handler));
    // wakers: per task a list, created up front so that wake counts can be read at the end
    let mut wakers: Vec<(Arc<CountingWaker>, std::task::Waker)> = Vec::new();
    let mut waker_of_poll: Vec<Vec<usize>> = Vec::new();
    for polls in tasks {
        let mut indices = Vec::new();
        let mut current = { wakers.push(counting_waker()); wakers.len() - 1 };
        for (index, poll) in polls.iter().enumerate() {
            if poll.new_waker && index > 0 { wakers.push(counting_waker()); current = wakers.len() - 1; }
            indices.push(current);
        }
        waker_of_poll.push(indices);
    }
    let wakers = Arc::new(wakers);
    let mut run = AckRun::default();
    let mut handles = Vec::new();
    {
        let ctl = ctl.clone();
        let ack = ack.clone();
        handles.push(std::thread::spawn(move || {
            MY_INDEX.with(|index| index.set(0));
            ack.verif_done(status.to_status());
            let mut state = ctl.state.lock().unwrap();
            state.threads[0] = TState::Finished;
            ctl.condvar.notify_all();
        }));
    }
    for (task, polls) in tasks.iter().enumerate() {
        let ctl = ctl.clone();
        let ack = ack.clone();
        let wakers = wakers.clone();
        let indices = waker_of_poll[task].clone();
        let polls = polls.len();
        handles.push(std::thread::spawn(move || {
            let me = task + 1;
            MY_INDEX.with(|index| index.set(me));
            for poll in 0..polls {
                let waker_index = indices[poll];
                let result = poll_once(&ack, &wakers[waker_index].1).map(St::from);
                let mut state = ctl.state.lock().unwrap();
                state.inside[me] = false;
                let end_seq = state.seq;
                let wakes = wakers[waker_index].0.wakes.load(Ordering::SeqCst);
                if let Some(entry) = state.log.iter_mut().rev().find(|entry| entry.thread == me && entry.end_seq == u64::MAX) {
                    entry.end_seq = end_seq;
                    entry.result = result;
                    entry.wakes_at_return = wakes;
                    entry.waker = waker_index;
                }
            }
            let mut state = ctl.state.lock().unwrap();
            state.threads[me] = TState::Finished;
            ctl.condvar.notify_all();
        }));
    }
    // controller
    let mut decision = 0;
    let mut done_steps: u8 = 0;
    let started = Instant::now();
    loop {
        let mut state = ctl.state.lock().unwrap();
        while state.granted.is_some() || state.threads.iter().any(|thread| *thread == TState::Running) {
            let (next, timeout) = ctl.condvar.wait_timeout(state, Duration::from_millis(200)).unwrap();
            state = next;
            if timeout.timed_out() && started.elapsed() > Duration::from_secs(15) { run.stalled = true; break; }
        }
        if run.stalled { break; }
        if state.threads.iter().all(|thread| *thread == TState::Finished) { break; }
        let any_inside = state.inside.iter().any(|inside| *inside);
        let enabled: Vec<usize> = (0..thread_count).filter(|thread| match state.threads[*thread] {
            TState::At(AckSite::Poll(0)) => !any_inside,
            TState::At(AckSite::Done(2)) => !any_inside,
            TState::At(_) => true,
            _ => false,
        }).collect();
        if enabled.is_empty() { run.stalled = true; break; }
        let pick = if enabled.len() == 1 { 0 } else {
            let pick = choose(enabled.len(), decision).min(enabled.len() - 1);
            run.branching.push(enabled.len() as u8);
            run.taken.push(pick as u8);
            decision += 1;
            pick
        };
        let thread = enabled[pick];
        state.seq += 1;
        let seq = state.seq;
        match state.threads[thread] {
            TState::At(AckSite::Poll(0)) => {
                state.inside[thread] = true;
                if done_steps > 0 && done_steps < 3 { run.poll_between_done_steps = true; }
                state.log.push(LogEntry { thread, waker: 0, start_seq: seq, end_seq: u64::MAX, result: None, wakes_at_return: 0, done_steps_before: done_steps });
            }
            TState::At(AckSite::Poll(_)) => { if done_steps > 0 && done_steps < 3 { run.poll_between_done_steps = true; } }
            TState::At(AckSite::Done(step)) => {
                if step == 2 { state.wake_step_at = Some(seq); }
                done_steps = step + 1;
            }
            _ => {}
        }
        state.granted = Some(thread);
        ctl.condvar.notify_all();
    }
    if run.stalled {
        // cannot join blocked threads; leak them (the case is reported as a stall)
        let state = ctl.state.lock().unwrap();
        run.log = state.log.clone();
        return (run, Vec::new());
    }
    for handle in handles { let _ = handle.join(); }
    let state = ctl.state.lock().unwrap();
    run.log = state.log.clone();
    let wakes: Vec<u64> = wakers.iter().map(|(counter, _)| counter.wakes.load(Ordering::SeqCst)).collect();
    let done_returned_at = state.done_returned_at;
    let wake_step_at = state.wake_step_at;
    drop(state);
    // stash for the oracle
    run.log.push(LogEntry { thread: 0, waker: 0, start_seq: wake_step_at.unwrap_or(u64::MAX), end_seq: done_returned_at.unwrap_or(u64::MAX), result: None, wakes_at_return: 0, done_steps_before: 255 });
    (run, wakes)
}

pub fn check_run(status: St, run: &AckRun, wakes: &[u64]) -> Check {
    ensure!(!run.stalled, "STALL", "stall/ack-schedule", "a step of done() or poll() did not reach its next schedule point: blocked");
    let marker = run.log.last().unwrap();
    let (wake_step_at, done_returned_at) = (marker.start_seq, marker.end_seq);
    let polls: Vec<&LogEntry> = run.log.iter().filter(|entry| entry.done_steps_before != 255).collect();
    let mut first_ready_end: Option<u64> = None;
    for poll in &polls {
        ensure!(poll.end_seq != u64::MAX, "STALL", "stall/ack-schedule", "a poll never returned");
        if let Some(result) = poll.result {
            ensure!(result != St::Pending, "C12", "C12/ready-pending", "a poll (task {}, started at step {}, {} steps of done() executed before) returned Ready(Pending)", poll.thread, poll.start_seq, poll.done_steps_before);
            ensure!(result == status, "C12", "C12/wrong-status", "a poll returned Ready({:?}) but the command ended with {:?}", result, status);
        }
        if let Some(ready_end) = first_ready_end {
            if poll.start_seq > ready_end {
                ensure!(poll.result.is_some(), "C12", "C12/pending-after-ready", "a poll started at step {} returned Pending after an earlier poll had returned Ready at step {}", poll.start_seq, ready_end);
            }
        }
        if poll.result.is_some() && first_ready_end.is_none() { first_ready_end = Some(poll.end_seq); }
        if poll.start_seq > done_returned_at {
            ensure!(poll.result.is_some(), "C12", "C12/pending-after-done", "a poll started after done() had returned is still Pending");
        }
    }
    // wake rule: the poll that most recently registered before done()'s wake step, if it returned Pending, must be woken afterwards
    if let Some(last) = polls.iter().filter(|poll| poll.start_seq < wake_step_at).max_by_key(|poll| poll.start_seq) {
        if last.result.is_none() {
            ensure!(wakes[last.waker] > last.wakes_at_return, "C12", "C12/lost-wakeup", "task {} polled last before completion (step {}), got Pending with waker #{}, and that waker was never woken afterwards (wakes {:?})", last.thread, last.start_seq, last.waker, wakes);
        }
    }
    Ok(())
}

pub fn run_ack_case(case: &AckCase) -> (AckRun, Option<Failure>) {
    let choices = case.choices.clone();
    let (run, wakes) = run_schedule(case.status, &case.tasks, |enabled, decision| {
        let choice = choices.get(decision).copied().unwrap_or(0) as usize;
        (choice * enabled) >> 8
    });
    let failure = check_run(case.status, &run, &wakes).err();
    (run, failure)
}

pub fn ack_case_result(case: &AckCase) -> CaseResult {
    let (run, failure) = run_ack_case(case);
    let mut classes = BTreeMap::new();
    classes.insert("poll_step_between_done_steps".to_string(), run.poll_between_done_steps as u64);
    classes.insert(format!("tasks_{}", case.tasks.len()), 1);
    classes.insert("waker_change".to_string(), case.tasks.iter().any(|polls| polls.iter().skip(1).any(|poll| poll.new_waker)) as u64);
    CaseResult { nontrivial: failure.is_none() && run.poll_between_done_steps, classes, suppressed: BTreeMap::new(), failure }
}

const STATUSES: [St; 6] = [St::Accepted, St::RejSpace, St::RejWeight, St::RejMissing, St::RejExists, St::ShuttingDown];

pub fn ack_case_strategy() -> BoxedStrategy<AckCase> {
    let polls = prop::collection::vec(any::<bool>().prop_map(|new_waker| PollSpec { new_waker }), 1..=3);
    ((0usize..6), prop::collection::vec(polls, 1..=2), prop::collection::vec(any::<u8>(), 0..=24))
        .prop_map(|(status, tasks, choices)| AckCase { status: STATUSES[status], tasks, choices }).boxed()
}

/// Enumerates every schedule of one shape (stateless depth-first search over the choice points).
/// Returns (schedules explored, schedules with a poll step between two done() steps, first failure).
pub fn enumerate_shape(status: St, tasks: &[Vec<PollSpec>], limit: u64) -> (u64, u64, Option<(AckCase, Failure)>, bool) {
    let mut prefix: Vec<u8> = Vec::new();
    let mut explored = 0;
    let mut nontrivial = 0;
    loop {
        let forced = prefix.clone();
        let (run, wakes) = run_schedule(status, tasks, |_, decision| forced.get(decision).copied().unwrap_or(0) as usize);
        explored += 1;
        if run.poll_between_done_steps { nontrivial += 1; }
        if let Err(failure) = check_run(status, &run, &wakes) {
            // express the schedule as a choice vector of the random engine (monotone mapping inverse)
            let choices = run.taken.iter().zip(run.branching.iter()).map(|(taken, branching)| (((*taken as usize) << 8) / (*branching as usize) + ((((*taken as usize) << 8) % (*branching as usize) != 0) as usize)) as u8).collect();
            return (explored, nontrivial, Some((AckCase { status, tasks: tasks.to_vec(), choices }, failure)), false);
        }
        // next schedule: increment the last choice that has an unexplored sibling
        let mut taken = run.taken.clone();
        let branching = run.branching.clone();
        loop {
            match taken.pop() {
                None => return (explored, nontrivial, None, true),
                Some(choice) => {
                    let index = taken.len();
                    if (choice as usize) + 1 < branching[index] as usize { taken.push(choice + 1); break; }
                }
            }
        }
        prefix = taken;
        if explored >= limit { return (explored, nontrivial, None, false); }
    }
}

// ---------------------------------------------------------------------------------------------
// End-to-end stress layer: a real cache, no hooks in the schedule.

#[derive(Default, Debug, Clone, Serialize)]
pub struct StressReport {
    pub puts: u64,
    pub polls: u64,
    pub pending_polls: u64,
    pub parked_waits: u64,
    pub raced_puts: u64,
}

pub fn stress(puts: u64, seed: u64) -> (StressReport, Option<Failure>) {
    use crate::case::{Cfg, HashMode, WeightMode};
    use tinylfu_cached::cache::verif::Instance;
    mark_harness_thread();
    let mut report = StressReport::default();
    let cfg = Cfg { counters: 1000, capacity: 1024, max_weight: i64::MAX / 4, shards: 2, cmd_buf: 4, pool: 1, buf: 8, tick_us: 1000, hash: HashMode::Identity, weight_mode: WeightMode::Table(vec![1]), start_ns: 0, noise_readers: 0, prelude: None };
    let inst = Instance::new();
    let clock = HClock::new(BASE_SECS * 1_000_000_000);
    let cache = crate::seq::build_cache(&cfg, &clock, &inst);
    let mut state = seed;
    let mut failure = None;
    'outer: for index in 0..puts {
        let key = index % 512;
        let value = (index << 8) | 1;
        // delete the previous incarnation of the key first (awaited), so that the put is accepted
        if index >= 512 {
            let ack = cache.delete(key).unwrap();
            if await_ack(&ack, &inst).is_err() { failure = Some(Failure::new("STALL", "stall/ack", "delete never acknowledged".to_string())); break; }
        }
        let ack = cache.put(key, value).unwrap();
        report.puts += 1;
        let parked = splitmix(&mut state) % 8 == 0;
        let mut first_poll = true;
        if parked {
            // a minimal executor: poll once with a waker that unparks this thread; if pending, park until woken
            let thread = std::thread::current();
            let flag = Arc::new(std::sync::atomic::AtomicBool::new(false));
            let waker = { let flag = flag.clone(); waker_fn(move || { flag.store(true, Ordering::SeqCst); thread.unpark(); }) };
            let begin = Instant::now();
            loop {
                report.polls += 1;
                match poll_once(&ack, &waker) {
                    Some(status) => {
                        if let Err(error) = check_ready(&cache, key, value, St::from(status)) { failure = Some(error); break 'outer; }
                        break;
                    }
                    None => {
                        if first_poll { report.raced_puts += 1; first_poll = false; }
                        report.pending_polls += 1;
                        report.parked_waits += 1;
                        while !flag.swap(false, Ordering::SeqCst) {
                            std::thread::park_timeout(Duration::from_millis(100));
                            if begin.elapsed() > WATCHDOG {
                                failure = Some(Failure::new("C12", "C12/lost-wakeup", format!("a task that polled the acknowledgement of put #{} and parked was not woken within {:?} although the command completed: {:?}", index, WATCHDOG, poll_once(&ack, &noop_waker()))));
                                break 'outer;
                            }
                        }
                    }
                }
            }
        } else {
            let waker = noop_waker();
            let begin = Instant::now();
            let mut spins = 0u64;
            loop {
                report.polls += 1;
                match poll_once(&ack, &waker) {
                    Some(status) => {
                        if let Err(error) = check_ready(&cache, key, value, St::from(status)) { failure = Some(error); break 'outer; }
                        break;
                    }
                    None => {
                        if first_poll { report.raced_puts += 1; first_poll = false; }
                        report.pending_polls += 1;
                        spins += 1;
                        if spins % 4096 == 0 && begin.elapsed() > WATCHDOG {
                            failure = Some(Failure::new("STALL", "stall/ack", format!("the acknowledgement of put #{} never completed", index)));
                            break 'outer;
                        }
                    }
                }
            }
        }
    }
    cache.shutdown();
    tinylfu_cached::cache::verif::install(None);
    (report, failure)
}

fn check_ready(cache: &tinylfu_cached::cache::cached::CacheD<u64, u64>, key: u64, value: u64, status: St) -> Check {
    ensure!(status != St::Pending, "C12", "C12/ready-pending", "poll returned Ready(Pending) for put({}, {:#x})", key, value);
    ensure!(status == St::Accepted, "C12", "C12/wrong-status", "put({}) of a fresh key in an almost empty cache resolved to {:?}", key, status);
    let got = cache.get(&key);
    ensure!(got == Some(value), "C12", "C12/accepted-not-visible", "the acknowledgement of put({}, {:#x}) resolved Accepted but get() returned {:x?}", key, value, got);
    Ok(())
}

fn waker_fn(f: impl Fn() + Send + Sync + 'static) -> std::task::Waker {
    struct FnWaker<F: Fn() + Send + Sync + 'static>(F);
    impl<F: Fn() + Send + Sync + 'static> std::task::Wake for FnWaker<F> {
        fn wake(self: Arc<Self>) { (self.0)(); }
        fn wake_by_ref(self: &Arc<Self>) { (self.0)(); }
    }
    std::task::Waker::from(Arc::new(FnWaker(f)))
}
