pub mod base;
pub mod case;
pub mod model;
pub mod seq;
pub mod runner;
pub mod checks;
pub mod engines;
