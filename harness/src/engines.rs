//! Dispatch: which engines serve which property; replay of saved cases.

use serde_json::{json, Value};

use crate::checks::*;
use crate::runner::*;

pub struct CheckOutcome {
    pub reports: Vec<CampaignReport>,
    pub violations: Vec<Violation>,
    pub assumptions: Vec<String>,
    pub extra: Value,
}

pub fn seq_assumptions() -> Vec<String> {
    vec![
        "SEQ: one harness thread; the harness owns the clock; after every clock change one complete sweep is awaited, so the physical state is a function of the history".to_string(),
        "the reference model (harness/src/model.rs, seq*.rs) is the trusted base; it is written from the property statements and public docs".to_string(),
        "hooks (cargo feature verif_hooks) are read-only accessors, counters, a worker gate and trace events; they add no behaviour".to_string(),
        "exploration only: the property held on every generated case; absence of violations elsewhere is not established".to_string(),
    ]
}

pub fn run_check(context: &CheckContext) -> CheckOutcome {
    let mut outcome = CheckOutcome { reports: Vec::new(), violations: Vec::new(), assumptions: Vec::new(), extra: json!({}) };
    // witnesses of open known findings are replayed first: each must still fail for its recorded cause
    let mut witness_report = CampaignReport { name: "known-finding-witnesses".to_string(), engine: "SEQ".to_string(), rule: "deterministic replay of the witness history of every open known finding of this property".to_string(), ..CampaignReport::default() };
    for finding in context.known.iter().filter(|finding| finding.property == context.property && finding.status == "open") {
        let Some(witness) = &finding.witness_case else { continue };
        if witness["engine"] == "CONC-F10" {
            // directed concurrent witness (timing widened to tens of milliseconds through a schedule point); a few attempts
            witness_report.evaluations += 1;
            for _ in 0..5 {
                if let Some(failure) = crate::conc::f10_witness() {
                    if let Relevance::Known(id) = context.relevance(&failure) { *witness_report.known_findings_hit.entry(id).or_insert(0) += 1; }
                    break;
                }
            }
            continue;
        }
        let (Ok(case), policy) = (decode_case::<crate::case::SeqCase>(&witness["case"]), serde_json::from_value::<crate::model::Policy>(witness["policy"].clone()).unwrap_or_default()) else { continue };
        let result = crate::seq::run_seq_case(&case, &policy);
        witness_report.evaluations += 1;
        if let Some(failure) = result.failure {
            match context.relevance(&failure) {
                Relevance::Known(id) => { *witness_report.known_findings_hit.entry(id).or_insert(0) += 1; }
                Relevance::Violation => {
                    let replay = Replay { property: context.property.clone(), engine: "SEQ".to_string(), campaign: format!("witness-{}", finding.id), seed: context.seed, case: witness["case"].clone(), policy: witness["policy"].clone(), failure: Some(failure.clone()), note: "witness of a known finding failed for a different cause".to_string() };
                    outcome.violations.push(Violation { replay_path: write_replay(&replay), failure });
                }
                _ => { *witness_report.other_property_failures.entry(failure.tag.clone()).or_insert(0) += 1; }
            }
        }
    }
    if witness_report.evaluations > 0 { outcome.reports.push(witness_report); }
    if !outcome.violations.is_empty() { return outcome; }
    if context.property == "C14" { return run_c14(context, outcome); }
    if context.property == "C12" { return run_c12(context, outcome); }
    if matches!(context.property.as_str(), "C18") { return run_conc_check(context, outcome); }
    // debugging aid: VERIF_SKIP_SEQ=1 runs only the concurrent part of a check
    let campaigns = if std::env::var("VERIF_SKIP_SEQ").is_ok() { Vec::new() } else { seq_campaigns_with_scale(&context.property) };
    if !campaigns.is_empty() { outcome.assumptions.extend(seq_assumptions()); }
    for campaign in campaigns {
        // debugging aid: VERIF_ONLY_CAMPAIGN=<name> runs just that sequential campaign
        if let Ok(only) = std::env::var("VERIF_ONLY_CAMPAIGN") { if only != campaign.name { continue; } }
        let (report, violation) = run_seq_campaign(context, &campaign);
        outcome.reports.push(report);
        if let Some(violation) = violation {
            outcome.violations.push(violation);
            break;
        }
    }
    if outcome.violations.is_empty() && context.tier == "thorough" && !seq_campaigns(&context.property).is_empty() && std::env::var("VERIF_NO_FUZZ").is_err() {
        let main = &seq_campaigns(&context.property)[0];
        let nt = main.nt;
        let run_input = move |bytes: &[u8]| {
            let case = crate::fuzzdec::seq_case_from_bytes(bytes);
            (seq_case_result(&case, &crate::model::Policy::default(), nt), serde_json::to_value(&case).unwrap_or(Value::Null), "SEQ")
        };
        let (report, violation) = run_fuzz_campaign(context, "seq_history", 20_000, &run_input);
        outcome.reports.push(report);
        if let Some(violation) = violation { outcome.violations.push(violation); }
    }
    if outcome.violations.is_empty() && matches!(context.property.as_str(), "C01" | "C02" | "C03" | "C04" | "C05" | "C06" | "C07" | "C09" | "C10" | "C11" | "C13" | "C15" | "C16" | "C17") { return run_conc_check(context, outcome); }
    outcome
}

/// Coverage-guided campaign (thorough tier): runs a libFuzzer target of harness/fuzz in a subprocess with a fresh corpus,
/// then re-runs the corpus it produced in-process to count distinct non-trivial cases. A crash artifact is decoded with
/// the same byte decoder, re-run, and turned into an ordinary replay file.
pub fn run_fuzz_campaign(context: &CheckContext, target: &str, runs: u64, run_input: &dyn Fn(&[u8]) -> (CaseResult, Value, &'static str)) -> (CampaignReport, Option<Violation>) {
    let started = std::time::Instant::now();
    let harness_dir = verif_dir().join("harness");
    let work = harness_dir.join("fuzz").join("corpus").join(format!("{}-{}-{}", target, context.property, std::process::id()));
    let artifacts = work.join("artifacts");
    let corpus = work.join("corpus");
    let _ = std::fs::create_dir_all(&artifacts);
    let _ = std::fs::create_dir_all(&corpus);
    let mut report = CampaignReport { name: format!("libfuzzer-{}", target), engine: "FUZZ".to_string(), ..CampaignReport::default() };
    report.rule = format!("libFuzzer target `{}` (bytes decoded by hand into a structured case, semantic oracle inside the target, coverage instrumentation, no sanitizer: the crate has no unsafe), fresh empty corpus, -runs={} -seed={} -len_control=0 -max_len=400; afterwards every corpus file is re-run in-process: non-trivial by the same rule as the generated campaign, distinct by file content", target, runs, context.seed);
    let output = std::process::Command::new("cargo")
        .args(["+nightly", "fuzz", "run", "-s", "none", target, corpus.to_str().unwrap(), "--",
            &format!("-runs={}", runs), &format!("-seed={}", context.seed.max(1)), "-len_control=0", "-max_len=400", "-print_final_stats=1",
            &format!("-artifact_prefix={}/", artifacts.to_str().unwrap())])
        .current_dir(&harness_dir)
        .env("CARGO_NET_OFFLINE", "true")
        .env("VERIF_FUZZ_PROPERTY", &context.property)
        .output();
    let mut violation = None;
    match output {
        Err(error) => { report.rule.push_str(&format!(" ;; NOT RUN: cannot start cargo fuzz: {}", error)); }
        Ok(output) => {
            let text = String::from_utf8_lossy(&output.stderr).to_string() + &String::from_utf8_lossy(&output.stdout);
            let executed = text.lines().find_map(|line| line.strip_prefix("stat::number_of_executed_units:").map(|rest| rest.trim().parse::<u64>().unwrap_or(0))).unwrap_or(0);
            report.evaluations = executed;
            if executed == 0 && !text.contains("FUZZ-FAILURE") {
                report.rule.push_str(" ;; NOT RUN: the fuzz target did not build or start (see stderr of `cargo +nightly fuzz build -s none`)");
            }
            // crash artifacts
            if let Ok(entries) = std::fs::read_dir(&artifacts) {
                for entry in entries.flatten() {
                    if let Ok(bytes) = std::fs::read(entry.path()) {
                        for _ in 0..3 {
                            let (result, case, engine) = run_input(&bytes);
                            if let Some(failure) = result.failure {
                                if context.relevance(&failure) == Relevance::Violation {
                                    let replay = Replay { property: context.property.clone(), engine: engine.to_string(), campaign: format!("libfuzzer-{}", target), seed: context.seed, case, policy: json!({}), failure: Some(failure.clone()), note: "found by libFuzzer; the artifact was decoded into this structured case (not minimised)".to_string() };
                                    violation = Some(Violation { replay_path: write_replay(&replay), failure });
                                    break;
                                }
                            }
                        }
                    }
                    if violation.is_some() { break; }
                }
            }
            // corpus statistics
            let mut distinct = std::collections::HashSet::new();
            if let Ok(entries) = std::fs::read_dir(&corpus) {
                for entry in entries.flatten().take(4000) {
                    if let Ok(bytes) = std::fs::read(entry.path()) {
                        let (result, case, _) = run_input(&bytes);
                        for (class, count) in &result.classes { *report.classes.entry(class.clone()).or_insert(0) += count; }
                        if result.nontrivial && distinct.insert(crate::base::fnv1a(&bytes)) && report.samples.len() < 2 { report.samples.push(case); }
                    }
                }
            }
            report.distinct_nontrivial = distinct.len() as u64;
        }
    }
    let _ = std::fs::remove_dir_all(&work);
    report.wall_s = started.elapsed().as_secs_f64();
    (report, violation)
}

pub struct ConcCampaign {
    pub name: &'static str,
    pub profile: crate::conc::ConcProfile,
    pub cases_quick: u64,
    pub cases_thorough: u64,
    pub nt: crate::conc::ConcNt,
    pub rule: &'static str,
}

pub fn conc_campaigns(property: &str) -> Vec<ConcCampaign> {
    use crate::conc::ConcProfile::*;
    match property {
        "C01" => vec![ConcCampaign { name: "conc-monitor", profile: General, cases_quick: 500, cases_thorough: 3000, nt: |s| s.monitor_samples > 0 && s.evicted_or_rejected,
            rule: "generated concurrent programs (2-6 threads, 1-6 overlapping keys, queue 1-8, clock thread, delay injection) with a monitor thread spinning on total_weight_used() for the whole run; weight-raising upserts are never generated (known finding F5); non-trivial = the monitor sampled and at least one put was refused for space (the cache was under pressure)" },
            ConcCampaign { name: "conc-evict-vs-sweep", profile: EvictVsSweep, cases_quick: 400, cases_thorough: 6000, nt: |s| s.eviction_loop_delayed && s.swept_during_run,
            rule: "small cache (60-150) full of short-lived TTL keys, heavy puts needing several evictions, the eviction loop delayed 100-800 us per step while a clock thread makes the sweeper collect keys concurrently; monitor on total_weight_used() plus bound and bijection at quiescence; non-trivial = the eviction loop ran AND the sweeper collected at least one key during the run" }],
        "C05" => vec![
            ConcCampaign { name: "sched-controlled", profile: Sched, cases_quick: 1500, cases_thorough: 15_000, nt: |s| s.sched_steps >= 15 && s.sched_threads >= 3,
            rule: "tiny programs (2-3 client threads x 2-7 operations on 1-2 keys, TTLs, clock moves as program steps) under the controlled scheduler: at every schedule point only the highest-priority parked thread (clients, command worker, sweeper, consumer) runs, priorities and priority change points are generated (PCT style), a thread that does not reach its next point within 0.4 ms is taken to be blocked or idle; all history checkers and quiescence invariants; non-trivial = >= 15 scheduling steps over >= 3 threads" },
            ConcCampaign { name: "conc-quiescence", profile: General, cases_quick: 800, cases_thorough: 6000, nt: |s| s.unawaited_same_key,
            rule: "generated concurrent programs racing the same keys; quiescence is constructed (all acknowledgements awaited, clock frozen, two sweeps waited for) and the physical snapshot must be a bijection store ids <-> charged ids with a matching total; non-trivial = two writes of one key where the second was issued before the first was acknowledged" },
            ConcCampaign { name: "conc-evict-vs-sweep", profile: EvictVsSweep, cases_quick: 400, cases_thorough: 6000, nt: |s| s.eviction_loop_delayed && s.swept_during_run,
            rule: "small cache of short-lived TTL keys, heavy puts, weight-changing upserts on keys that expire, eviction loop and weight-update critical sections delayed while a clock thread drives the sweeper; bijection and total at quiescence; non-trivial = the eviction loop ran AND the sweeper collected keys during the run" },
            ConcCampaign { name: "conc-sweep-race", profile: SweepRace, cases_quick: 400, cases_thorough: 3000, nt: |s| s.swept_during_run && s.ttl_writes >= 2 && s.threads >= 2,
            rule: "put-with-TTL / TTL change / delete / re-put cycles on three keys by 2-5 threads while the sweeper is delayed between releasing a key's weight and removing its store entry (see C10); bijection and totals at quiescence; non-trivial = the sweeper collected keys during the run and >= 2 TTL writes were accepted" }],
        "C02" => vec![ConcCampaign { name: "conc-reads", profile: General, cases_quick: 1200, cases_thorough: 10_000, nt: |s| s.overlapping_read_write && s.read_after_completed_overwrite,
            rule: "[general] generated concurrent programs, every write carries a unique token (key, thread, op); all 7 read variants; pressure in 3 of 4 configs; hash functions default/identity/constant/mod 2; history checker: value decodes to the key, was written by a write that began before the read ended and was not refused, and no overwrite/delete ordered after that write had completed before the read began; non-trivial = a read overlapped a write of its key AND a value-returning read followed a completed write of that key" },
            ConcCampaign { name: "sched-controlled", profile: Sched, cases_quick: 1500, cases_thorough: 15_000, nt: |s| s.sched_steps >= 15 && s.sched_threads >= 3,
            rule: "tiny programs (2-3 client threads x 2-7 operations on 1-2 keys, TTLs, clock moves as program steps) under the controlled scheduler: at every schedule point only the highest-priority parked thread (clients, command worker, sweeper, consumer) runs, priorities and priority change points are generated (PCT style), a thread that does not reach its next point within 0.4 ms is taken to be blocked or idle; all history checkers and quiescence invariants; non-trivial = >= 15 scheduling steps over >= 3 threads" },
            ConcCampaign { name: "conc-delete-window", profile: DeleteWindow, cases_quick: 300, cases_thorough: 4000, nt: |s| s.read_between_delete_and_ack && s.guard_held_during_delete,
            rule: "deleter / readers / guard holders on the same keys with a slowed command worker (see C04); non-trivial = a read between delete() returning and its acknowledgement AND a guard held when delete() was called" }],
        "C04" => vec![
            ConcCampaign { name: "sched-controlled", profile: Sched, cases_quick: 1500, cases_thorough: 15_000, nt: |s| s.sched_steps >= 15 && s.sched_threads >= 3,
            rule: "tiny programs (2-3 client threads x 2-7 operations on 1-2 keys, TTLs, clock moves as program steps) under the controlled scheduler: at every schedule point only the highest-priority parked thread (clients, command worker, sweeper, consumer) runs, priorities and priority change points are generated (PCT style), a thread that does not reach its next point within 0.4 ms is taken to be blocked or idle; all history checkers and quiescence invariants; non-trivial = >= 15 scheduling steps over >= 3 threads" },
            ConcCampaign { name: "conc-delete-window", profile: DeleteWindow, cases_quick: 500, cases_thorough: 6000, nt: |s| s.read_between_delete_and_ack && s.guard_held_during_delete,
            rule: "one deleter cycling awaited put / unawaited delete / immediate reads / await on 3 keys of one store shard region, 1-5 threads reading and holding get_ref guards on the same keys, command worker delayed 30-500 us per command so the window between delete() returning and its acknowledgement is wide; history checker: no read that starts after delete() returned may return the deleted value; non-trivial = a read of the key fell between delete() returning and its acknowledgement AND a get_ref guard was held when delete() was called" },
            ConcCampaign { name: "conc-general", profile: General, cases_quick: 500, cases_thorough: 6000, nt: |s| s.unawaited_same_key && s.overlapping_read_write,
            rule: "generated concurrent programs (2-6 threads, 1-6 overlapping keys, all write variants incl. deletes racing puts, clock thread, delay injection at any schedule point); all history checkers and the quiescence invariants (bijection, no entry left marked deleted, totals); non-trivial = overlapping writes of one key and a read overlapping a write" }],
        "C02x" => vec![],
        "C07" => vec![ConcCampaign { name: "conc-put-contention", profile: PutContention, cases_quick: 600, cases_thorough: 8000, nt: |s| s.puts_on_settled_keys >= 3 && s.threads >= 3,
            rule: "keys are never deleted, never given a TTL and the cache is far from full, so once a key's first write is acknowledged it stays readable; 3-8 threads then race puts (all four variants), in-place upserts, reads and held get_ref guards on those keys with 2 store shards; every such put must be refused with KeyAlreadyExists and no read may ever return its value; non-trivial = >= 3 puts hit an already settled key from >= 3 threads" },
            ConcCampaign { name: "conc-general", profile: General, cases_quick: 500, cases_thorough: 6000, nt: |s| s.unawaited_same_key && s.overlapping_read_write,
            rule: "generated concurrent programs (2-6 threads, 1-6 overlapping keys, all write variants incl. deletes racing puts, clock thread, delay injection at any schedule point); all history checkers and the quiescence invariants (bijection, no entry left marked deleted, totals); non-trivial = overlapping writes of one key and a read overlapping a write" }],
        "C03" => vec![
            ConcCampaign { name: "conc-ttl-owner", profile: TtlOwner, cases_quick: 400, cases_thorough: 4000, nt: |s| s.swept_during_run && s.ttl_writes >= 2 && s.threads >= 3,
            rule: "the sweep-race programs (threads cycling TTL writes on three shared keys while a clock thread keeps expiring them and the sweeper is delayed inside its pass, expiry shard locked) plus an owner thread, the only writer of four private keys, which gives them a TTL and takes it away again, every write awaited; at quiescence (after one more sweep of every shard) every key whose only writer left it in the cache without a TTL must be held, without an expiry; non-trivial = the sweeper collected keys during the run and >= 2 TTL writes were accepted" },
            ConcCampaign { name: "conc-tight-fit", profile: TightFit, cases_quick: 600, cases_thorough: 8000, nt: |s| s.owner_reincarnations >= 2 && s.swept_during_run && s.threads >= 2,
            rule: "the cache weight equals the combined (fixed) put weights of the whole key universe, so everything always fits; thread 0 works sequentially (each write awaited) on two keys nobody else touches, without TTL, while 1-5 other threads churn the other keys with TTL puts, upserts, deletes and a clock thread drives sweeps, with delays in the weight-accounting critical sections; nothing may be refused for space and the owner must always read its latest acknowledged value; non-trivial = the owner's keys went through >= 2 accepted puts AND the sweeper collected keys during the run" }],
        "C09" => vec![
            ConcCampaign { name: "conc-ttl-owner", profile: TtlOwner, cases_quick: 300, cases_thorough: 3000, nt: |s| s.swept_during_run && s.ttl_writes >= 2 && s.threads >= 3,
            rule: "as conc-ttl-owner of C03: a key whose only writer removed its time-to-live (awaited) must never be collected, whatever the sweeper was doing at that moment; judged at quiescence after one more sweep of every shard" },
            ConcCampaign { name: "conc-expiry", profile: General, cases_quick: 500, cases_thorough: 6000, nt: |s| s.ttl_writes >= 1 && s.sweeps_during_run && s.read_after_completed_overwrite,
            rule: "generated concurrent programs with TTL writes and a clock thread; history checker: a returned value whose write carried a TTL must not be served once the clock is certainly past the latest possible deadline of that write (clock values bracketed by stamps); non-trivial = an accepted TTL write, a clock thread, and a value-returning read after a completed write" }],
        "C10" => vec![
            ConcCampaign { name: "sched-controlled", profile: Sched, cases_quick: 1500, cases_thorough: 15_000, nt: |s| s.sched_steps >= 15 && s.sched_threads >= 3,
            rule: "tiny programs (2-3 client threads x 2-7 operations on 1-2 keys, TTLs, clock moves as program steps) under the controlled scheduler: at every schedule point only the highest-priority parked thread (clients, command worker, sweeper, consumer) runs, priorities and priority change points are generated (PCT style), a thread that does not reach its next point within 0.4 ms is taken to be blocked or idle; all history checkers and quiescence invariants; non-trivial = >= 15 scheduling steps over >= 3 threads" },
            ConcCampaign { name: "conc-sweeps", profile: EvictVsSweep, cases_quick: 400, cases_thorough: 6000, nt: |s| s.rotated && s.swept_during_run && s.ttl_writes >= 1,
            rule: "small cache of short-lived TTL keys, writers, evictions and a clock thread driving sweeps concurrently with worker commands; at quiescence the harness performs one complete sweep of every shard: no key whose deadline lay before that rotation may remain, every held TTL key must be indexed under its current deadline and no key without TTL may be indexed; non-trivial = the final rotation completed, the sweeper collected keys during the run and a TTL write was accepted" },
            ConcCampaign { name: "conc-sweep-race", profile: SweepRace, cases_quick: 400, cases_thorough: 3000, nt: |s| s.swept_during_run && s.ttl_writes >= 2 && s.threads >= 2,
            rule: "2-5 threads cycle put-with-TTL / TTL change or removal / delete / re-put / read on three keys while a clock thread keeps expiring them and the sweeper is delayed 0.2-2.5 ms between releasing a key's weight and removing its store entry; at quiescence: bijection store ids <-> charges, totals, expiry index vs held entries, nothing expired left after a full rotation, counters; reads are checked for staleness; non-trivial = the sweeper collected keys during the run and >= 2 TTL writes were accepted" },
        ],
        "C16" => vec![ConcCampaign { name: "conc-counters", profile: General, cases_quick: 500, cases_thorough: 6000, nt: |s| s.threads >= 2 && s.evicted_or_rejected,
            rule: "generated concurrent programs; at quiescence hits + misses == lookups issued, KeysAdded - KeysDeleted == keys held, WeightAdded - WeightRemoved == weight used; non-trivial = >= 2 threads and at least one put refused for space" }],
        "C17" => vec![
            ConcCampaign { name: "sched-controlled", profile: Sched, cases_quick: 1500, cases_thorough: 15_000, nt: |s| s.sched_steps >= 15 && s.sched_threads >= 3,
            rule: "tiny programs (2-3 client threads x 2-7 operations on 1-2 keys, TTLs, clock moves as program steps) under the controlled scheduler (see C18): no call may panic, no background thread may die or stop making progress (the cache must keep completing writes); non-trivial = >= 15 scheduling decisions over >= 3 threads" },
            ConcCampaign { name: "conc-no-panic", profile: Deadlock, cases_quick: 400, cases_thorough: 6000, nt: |s| s.threads >= 3 && s.delays > 0,
            rule: "generated concurrent programs with maximal sharing; no call may panic, no background thread may die (panic hook on every thread), worker / consumer / sweeper must pass a liveness probe at the end; non-trivial = >= 3 threads with injected delays" }],
        "C11" => vec![
            ConcCampaign { name: "sched-controlled", profile: Sched, cases_quick: 1500, cases_thorough: 15_000, nt: |s| s.sched_steps >= 15 && s.sched_threads >= 3,
            rule: "tiny programs (2-3 client threads x 2-7 operations on 1-2 keys, TTLs, clock moves as program steps) under the controlled scheduler: at every schedule point only the highest-priority parked thread (clients, command worker, sweeper, consumer) runs, priorities and priority change points are generated (PCT style), a thread that does not reach its next point within 0.4 ms is taken to be blocked or idle; all history checkers and quiescence invariants; non-trivial = >= 15 scheduling steps over >= 3 threads" },
            ConcCampaign { name: "conc-bursts", profile: Bursts, cases_quick: 800, cases_thorough: 8000, nt: |s| s.queue_full_sends && s.concurrent_in_flight,
            rule: "generated bursts of unawaited writes from 1-8 threads, queue size 1/2/3/8, worker and senders delayed by injection; trace checker: every queued command executed exactly once, executions never overlap, per-thread and real-time cross-thread order preserved, statuses match; when the last acknowledgement of a thread completes all earlier ones are complete; non-trivial = a send waited on a full queue AND two threads had commands in flight at once" }],
        "C12" => vec![ConcCampaign { name: "conc-acks-around-shutdown", profile: Shutdown, cases_quick: 600, cases_thorough: 8000, nt: |s| s.shutting_down_acks >= 1 && s.real_acks >= 1,
            rule: "generated concurrent programs with unawaited writes and shutdown() calls, queue 1-8: every acknowledgement that was handed out must complete (no-progress watchdog) with the status the command really ended with, never Pending; non-trivial = at least one acknowledgement ended ShuttingDown and one with a real outcome" },
            ConcCampaign { name: "conc-acks-general", profile: General, cases_quick: 400, cases_thorough: 6000, nt: |s| s.unawaited_same_key,
            rule: "generated concurrent programs (General profile): every acknowledgement completes and its status equals the status the worker recorded for the command; non-trivial = overlapping unawaited writes of one key" }],
        "C13" => vec![ConcCampaign { name: "conc-shutdown", profile: Shutdown, cases_quick: 1000, cases_thorough: 10_000, nt: |s| s.shutting_down_acks >= 1 && s.real_acks >= 1,
            rule: "generated concurrent programs containing shutdown() calls anywhere, queue 1-8, unawaited writes in flight, delays between the steps of shutdown() and at the worker; non-trivial = at least one acknowledgement ended ShuttingDown and at least one with a real outcome" }],
        "C15" => vec![ConcCampaign { name: "conc-access-accounting", profile: Reads, cases_quick: 800, cases_thorough: 6000, nt: |s| s.threads >= 2 && s.handovers >= 1,
            rule: "generated read workloads from 1-16 threads over all read variants, pool in {1,2,3,32}, buffer in {1,2,3,64}, consumer free / stopped / stopped-then-released via the gate hook; at quiescence hits == buffered + AccessAdded + AccessDropped etc.; non-trivial = >= 2 reader threads and >= 1 buffer hand-over" }],
        "C18" => vec![
            ConcCampaign { name: "sched-controlled", profile: Sched, cases_quick: 1500, cases_thorough: 15_000, nt: |s| s.sched_steps >= 15 && s.sched_threads >= 3,
            rule: "tiny programs (2-3 client threads x 2-7 operations on 1-2 keys, TTLs, clock moves as program steps) under the controlled scheduler: at every schedule point only the highest-priority parked thread (clients, command worker, sweeper, consumer) runs, priorities and priority change points are generated (PCT style), a thread that does not reach its next point within 0.4 ms is taken to be blocked or idle; all history checkers and quiescence invariants; non-trivial = >= 15 scheduling steps over >= 3 threads" },
            ConcCampaign { name: "conc-deadlock", profile: Deadlock, cases_quick: 900, cases_thorough: 10_000, nt: |s| s.threads >= 3 && s.distinct_sites_delayed >= 2 && s.sweeps_during_run,
            rule: "generated concurrent programs with maximal lock sharing (2 shards, queue 1, pool 1, buffer 1, 1-3 keys, up to 12 threads, TTL upserts, evictions, sweeps, get_ref guards held without call-back) and delay injection after lock acquisition sites; a case is blocked when no call returned and no acknowledgement completed for the stall window while the threads consumed no CPU; non-trivial = >= 3 threads, >= 2 distinct sites delayed, clock thread driving sweeps" },
            ConcCampaign { name: "conc-readers-vs-eviction", profile: ReadersVsEviction, cases_quick: 300, cases_thorough: 4000, nt: |s| s.threads >= 3 && s.eviction_loop_delayed && s.handovers > 0,
            rule: "a cache exactly full with three hot and two cold keys; 2-4 threads read the hot keys through get_ref / map_get_ref / get_ref guards (the access is recorded while the store guard is held) with pool 1 x buffer 1, a writer puts a stream of fresh cold keys, each evicting an older one, delays injected in the eviction loop, under the weight lock, in the pool and in the consumer: a cycle between worker (eviction), reader (store guard -> pool -> hand-over channel) and consumer (sketch lock) would block the run; non-trivial = >= 3 threads, the eviction loop ran and at least one access buffer was handed over to the consumer" },
            ConcCampaign { name: "conc-evict-vs-sweep", profile: EvictVsSweep, cases_quick: 300, cases_thorough: 4000, nt: |s| s.eviction_loop_delayed && s.swept_during_run,
            rule: "small cache (60-150) full of short-lived TTL keys, heavy puts needing several evictions, the eviction loop delayed 100-800 us per step while a clock thread makes the sweeper collect keys concurrently (worker inside the eviction hook vs. sweeper inside its pass: the two threads that nest the weight lock and the expiry-shard locks); every call must return and every acknowledgement complete; non-trivial = the eviction loop ran AND the sweeper collected at least one key during the run" },
            ConcCampaign { name: "conc-sweep-race", profile: SweepRace, cases_quick: 300, cases_thorough: 3000, nt: |s| s.swept_during_run && s.ttl_writes >= 2 && s.threads >= 2,
            rule: "put-with-TTL / TTL change / delete / re-put cycles on three keys by 2-5 threads while the sweeper is delayed inside its pass; every call must return and every acknowledgement complete; non-trivial = the sweeper collected keys during the run and >= 2 TTL writes were accepted" },
        ],
        _ => Vec::new(),
    }
}

fn run_conc_check(context: &CheckContext, mut outcome: CheckOutcome) -> CheckOutcome {
    use crate::conc::*;
    let thorough = context.tier == "thorough";
    if matches!(context.property.as_str(), "C10" | "C05" | "C03") {
        // directed regression scenario of the repaired finding F11 (sweep of an old incarnation vs delete + re-put)
        let started = std::time::Instant::now();
        let delays: Vec<u64> = if thorough { vec![1, 2, 5, 10, 20, 40, 80] } else { vec![2, 10, 30] };
        let repeats = if thorough { 10 } else { 4 };
        let mut report = CampaignReport { name: "directed-sweep-vs-reput".to_string(), engine: "CONC-DIRECTED".to_string(),
            rule: "directed schedule (through the schedule point between the sweeper's weight release and its store removal): TTL key expires, sweeper delayed d ms after releasing the weight, client removes the TTL in place, deletes the key and puts it again; the new incarnation must survive and be the only charge; d from a fixed list, each repeated; every execution is non-trivial (counted per (d, repetition))".to_string(), ..CampaignReport::default() };
        'outer: for delay in &delays {
            for _ in 0..repeats {
                report.evaluations += 1;
                report.distinct_nontrivial += 1;
                if let Some(failure) = sweep_vs_reput_scenario(*delay) {
                    if failure.concerns(&context.property) {
                        let replay = Replay { property: context.property.clone(), engine: "DIRECTED-F11".to_string(), campaign: "directed-sweep-vs-reput".to_string(), seed: context.seed, case: json!({"delay_ms": delay}), policy: json!({}), failure: Some(failure.clone()), note: "directed scenario; replay re-runs it 20 times".to_string() };
                        outcome.violations.push(Violation { replay_path: write_replay(&replay), failure });
                        break 'outer;
                    }
                }
            }
        }
        report.samples.push(json!({"delays_ms": delays, "repeats": repeats}));
        report.wall_s = started.elapsed().as_secs_f64();
        outcome.reports.push(report);
        if !outcome.violations.is_empty() { return outcome; }
    }
    if context.property == "C13" {
        // "every acknowledgement handed out before or during shutdown still completes ... so no caller waits forever": the
        // completion by the drain loop (status ShuttingDown) must reach a caller that awaits with a waker, whichever
        // waker it polled with last. Same controlled-schedule engine as C12, final status fixed to ShuttingDown.
        use proptest::strategy::Strategy;
        let run_case: std::sync::Arc<dyn Fn(&crate::ack::AckCase) -> CaseResult + Send + Sync> = std::sync::Arc::new(|case: &crate::ack::AckCase| {
            let mut result = crate::ack::ack_case_result(case);
            if let Some(failure) = &mut result.failure { if failure.property == "C12" && !failure.also.contains(&"C13".to_string()) { failure.also.push("C13".to_string()); } }
            result
        });
        let (report, found) = run_campaign(context, "ack-shutting-down", "ACK",
            "generated schedules of the acknowledgement (1-2 polling tasks, 1-3 polls each, same/new waker per poll, choice vector) completed with the status ShuttingDown, as the drain loop of shutdown does: every poll after completion yields ShuttingDown and the waker polled with last is woken; non-trivial = a poll step lies strictly between two steps of done()",
            if thorough { 60_000 } else { 6000 }, std::sync::Arc::new(|| crate::ack::ack_case_strategy().prop_map(|mut case| { case.status = crate::base::St::ShuttingDown; case }).boxed()), run_case);
        outcome.reports.push(report);
        if let Some((case, failure)) = found {
            let replay = Replay { property: "C13".to_string(), engine: "ACK".to_string(), campaign: "ack-shutting-down".to_string(), seed: context.seed, case: serde_json::to_value(&case).unwrap(), policy: json!({}), failure: Some(failure.clone()), note: "deterministic: the schedule is the choice vector".to_string() };
            outcome.violations.push(Violation { replay_path: write_replay(&replay), failure });
            return outcome;
        }
    }
    if matches!(context.property.as_str(), "C03" | "C05" | "C09" | "C10" | "C15" | "C16") {
        // bulk histories against a plain map (VOLUME engine)
        let run_case: std::sync::Arc<dyn Fn(&crate::volume::VolCase) -> CaseResult + Send + Sync> = std::sync::Arc::new(|case: &crate::volume::VolCase| crate::volume::vol_case_result(case));
        let (report, found) = run_campaign_with(context, "volume", "VOLUME",
            "generated bulk histories in a cache far from full, against a plain map: 1 500 - 20 000 keys (up to 100 000 in the thorough tier) are put unawaited (every n-th with a TTL of 1..span seconds), a third is upserted (new value, lower weight, TTL set or removed), a quarter deleted, an eighth put again, then the clock walks second by second past half and then all of the deadlines; after each phase every key is read and compared, the store, the weight map and the expiry index must hold exactly the model's keys, the total weight must be their sum, and every counter (hits, misses, keys added / deleted, weight added / removed, access records) must be exact; configurations with 2 - 1024 expiry shards, queues of 1 - 4096, pools of 1 - 32, access buffers of 1 - 1000 (every record handed over must also be applied to the sketch); non-trivial = at least 1 000 commands executed",
            if thorough { 160 } else { 24 }, std::sync::Arc::new(move || crate::volume::vol_case_strategy(thorough)), run_case, false, context.workers.min(8));
        outcome.reports.push(report);
        if let Some((case, failure)) = found {
            let replay = Replay { property: context.property.clone(), engine: "VOLUME".to_string(), campaign: "volume".to_string(), seed: context.seed, case: serde_json::to_value(&case).unwrap(), policy: json!({}), failure: Some(failure.clone()), note: "bulk history; deterministic up to thread timing".to_string() };
            outcome.violations.push(Violation { replay_path: write_replay(&replay), failure });
            return outcome;
        }
    }
    if context.property == "C01" {
        let run_case: std::sync::Arc<dyn Fn(&crate::volume::PressureCase) -> CaseResult + Send + Sync> = std::sync::Arc::new(|case: &crate::volume::PressureCase| crate::volume::pressure_case_result(case));
        let (report, found) = run_campaign_with(context, "volume-pressure-monitor", "VOLUME",
            "a cache exactly full with 500 - 8 000 keys (30 000 in the thorough tier) of weight 1 - 3 spread over 2 - 256 shards; 2 000 - 6 000 fresh keys are put unawaited, each needing an eviction, interleaved with deletes and weight-lowering upserts, while 1 - 3 reader threads poll total_weight_used() without pause: every reading must lie in [0, cache weight]; non-trivial = the readers took at least 1 000 readings",
            if thorough { 60 } else { 12 }, std::sync::Arc::new(move || crate::volume::pressure_case_strategy(thorough)), run_case, false, context.workers.min(4));
        outcome.reports.push(report);
        if let Some((case, failure)) = found {
            let replay = Replay { property: context.property.clone(), engine: "VOLUME-PRESSURE".to_string(), campaign: "volume-pressure-monitor".to_string(), seed: context.seed, case: serde_json::to_value(&case).unwrap(), policy: json!({}), failure: Some(failure.clone()), note: "timing dependent; replay re-executes the case 10 times".to_string() };
            outcome.violations.push(Violation { replay_path: write_replay(&replay), failure });
            return outcome;
        }
    }
    if context.property == "C16" {
        // volume: the sweeper and the command worker remove thousands of keys at the same time
        let started = std::time::Instant::now();
        let sizes: Vec<(u64, usize)> = if thorough { vec![(20_000, 2), (20_000, 4), (60_000, 2), (60_000, 8), (120_000, 2)] } else { vec![(20_000, 2), (20_000, 4)] };
        let repeats = if thorough { 6 } else { 3 };
        let mut report = CampaignReport { name: "volume-sweep-vs-delete".to_string(), engine: "CONC-DIRECTED".to_string(),
            rule: "n keys with a TTL and n without are put, then every TTL key expires while a client deletes all the others: the sweeper and the command worker remove keys and release weight concurrently (both update the same counters); after every shard was swept twice the cache must be empty, KeysAdded == 2n, KeysAdded - KeysDeleted == keys held and WeightAdded - WeightRemoved == weight in use; one evaluation per (n, shards, repetition), all non-trivial (tens of thousands of concurrent removals each)".to_string(), ..CampaignReport::default() };
        'volume: for (n, shards) in &sizes {
            for _ in 0..repeats {
                report.evaluations += 1;
                report.distinct_nontrivial += 1;
                if let Some(failure) = stats_stress_scenario(*n, *shards) {
                    let replay = Replay { property: context.property.clone(), engine: "DIRECTED-C16".to_string(), campaign: "volume-sweep-vs-delete".to_string(), seed: context.seed, case: json!({"n": n, "shards": shards}), policy: json!({}), failure: Some(failure.clone()), note: "volume scenario; replay re-executes it 10 times".to_string() };
                    outcome.violations.push(Violation { replay_path: write_replay(&replay), failure });
                    break 'volume;
                }
            }
        }
        report.samples.push(json!({"sizes": sizes, "repeats": repeats}));
        report.wall_s = started.elapsed().as_secs_f64();
        outcome.reports.push(report);
        if !outcome.violations.is_empty() { return outcome; }
    }
    if matches!(context.property.as_str(), "C03" | "C06") {
        // directed regression scenario of the repaired finding F12 (phantom weight between the two steps of CacheWeight::delete)
        let started = std::time::Instant::now();
        let delays: Vec<u64> = if thorough { vec![1, 2, 5, 10, 20, 40] } else { vec![2, 10, 25] };
        let repeats = if thorough { 10 } else { 4 };
        let mut report = CampaignReport { name: "directed-phantom-weight".to_string(), engine: "CONC-DIRECTED".to_string(),
            rule: "directed schedule (through the schedule point inside CacheWeight::delete): keys weighing 4 + 11 + 14 + 17 in a cache of 50; the key of weight 17 expires, the sweeper is delayed d ms right after taking its id out of the weight map; a client removes that key's TTL in place, deletes it and puts it again with weight 17; everything fits, so the put must be accepted and no other key may be evicted; one evaluation per (delay, repetition), each non-trivial when the delete was accepted in the window".to_string(), ..CampaignReport::default() };
        'phantom: for delay in &delays {
            for _ in 0..repeats {
                report.evaluations += 1;
                report.distinct_nontrivial += 1;
                if let Some(failure) = phantom_weight_scenario(*delay) {
                    if failure.concerns(&context.property) {
                        let replay = Replay { property: context.property.clone(), engine: "DIRECTED-F12".to_string(), campaign: "directed-phantom-weight".to_string(), seed: context.seed, case: json!({"delay_ms": delay}), policy: json!({}), failure: Some(failure.clone()), note: "directed scenario; replay re-executes it 20 times".to_string() };
                        outcome.violations.push(Violation { replay_path: write_replay(&replay), failure });
                        break 'phantom;
                    }
                }
            }
        }
        report.samples.push(json!({"delays_ms": delays, "repeats": repeats}));
        report.wall_s = started.elapsed().as_secs_f64();
        outcome.reports.push(report);
        if !outcome.violations.is_empty() { return outcome; }
    }
    outcome.assumptions.extend(vec![
        "CONC: programs are generated deterministically from the seed, but their execution depends on OS scheduling; each program is executed several times; interleavings are sampled, widened by delay injection at hook sites, never enumerated".to_string(),
        "history checkers are one-directional (an absent value is always allowed) and use stamps from one global atomic counter taken before and after each call".to_string(),
        "a violation is reported with the observed failing history in the replay file; replay re-executes the program repeatedly and also re-checks the stored history".to_string(),
    ]);
    for campaign in conc_campaigns(&context.property) {
        let cases = if thorough { campaign.cases_thorough } else { campaign.cases_quick };
        let repeats = if thorough { 6 } else { 3 };
        let stall = std::time::Duration::from_secs(if thorough { 60 } else { 15 });
        let property = context.property.clone();
        let nt = campaign.nt;
        let failing_history: std::sync::Arc<std::sync::Mutex<std::collections::HashMap<u64, History>>> = std::sync::Arc::new(std::sync::Mutex::new(std::collections::HashMap::new()));
        let sink = failing_history.clone();
        let run_case: std::sync::Arc<dyn Fn(&ConcCase) -> CaseResult + Send + Sync> = std::sync::Arc::new(move |case: &ConcCase| {
            let (result, history) = conc_case_result(case, &property, repeats, stall, nt);
            if let Some(history) = history { sink.lock().unwrap().insert(case_hash(case), history); }
            result
        });
        let profile = campaign.profile;
        let (report, found) = run_campaign_with(context, campaign.name, "CONC", campaign.rule, cases, std::sync::Arc::new(move || conc_case_strategy(profile, thorough)), run_case, false, (context.workers / 3).max(2));
        outcome.reports.push(report);
        if let Some((case, failure)) = found {
            let history = failing_history.lock().unwrap().remove(&case_hash(&case));
            let replay = Replay { property: context.property.clone(), engine: "CONC".to_string(), campaign: campaign.name.to_string(), seed: context.seed,
                case: serde_json::to_value(&case).unwrap(), policy: json!({"observed_history": history}), failure: Some(failure.clone()),
                note: "concurrent case: not shrunk; `policy.observed_history` is the history that failed (re-checked offline by replay); replay also re-executes the program up to 150 times".to_string() };
            outcome.violations.push(Violation { replay_path: write_replay(&replay), failure });
            break;
        }
    }
    outcome
}

fn run_c14(context: &CheckContext, mut outcome: CheckOutcome) -> CheckOutcome {
    use crate::sketch::*;
    outcome.assumptions = vec![
        "SKETCH: the packed rows, the count-min sketch and TinyLFU are driven through thin public wrappers (feature verif_hooks) that delegate to the crate-private types".to_string(),
        "the unpacked reference (one u8 per counter) reads the random row seeds through the wrapper; the first-access filter (bloom filter with random keys) is observed before each access and everything else predicted".to_string(),
        "the byte table (256 values x both nibbles x 3 neighbour bytes) is enumerated completely; streams are explored".to_string(),
    ];
    let started = std::time::Instant::now();
    let (evaluations, failure) = exhaustive_byte_table();
    let mut table = CampaignReport { name: "byte-table".to_string(), engine: "SKETCH".to_string(), evaluations, distinct_nontrivial: evaluations, exhaustive: true,
        rule: "all 256 packed byte values x both nibbles x neighbour byte in {0x00, 0xA5, 0xFF} x byte first/second: get, increment twice, halve, compared counter by counter with the unpacked reference; every entry is non-trivial (touches a packed byte next to a neighbour)".to_string(),
        samples: vec![json!({"row": [0x9f, 0xa5], "ops": ["get_at(0)", "increment_at(0) x2", "half_counters", "get_at(1)"]})], wall_s: started.elapsed().as_secs_f64(), ..CampaignReport::default() };
    if let Some(failure) = failure {
        let replay = Replay { property: "C14".to_string(), engine: "SKETCH-TABLE".to_string(), campaign: "byte-table".to_string(), seed: context.seed, case: json!({}), policy: json!({}), failure: Some(failure.clone()), note: "exhaustive byte table; replay re-runs the whole table".to_string() };
        table.violation = Some(json!({"failure": failure}));
        outcome.reports.push(table);
        outcome.violations.push(Violation { replay_path: write_replay(&replay), failure });
        return outcome;
    }
    outcome.reports.push(table);
    let cases = if context.tier == "thorough" { 200_000 } else { 6000 };
    let max_ops = if context.tier == "thorough" { 120 } else { 60 };
    let run_case: std::sync::Arc<dyn Fn(&SketchCase) -> CaseResult + Send + Sync> = std::sync::Arc::new(|case: &SketchCase| sketch_case_result(case));
    let (report, found) = run_campaign(context, "streams", "SKETCH",
        "generated access streams (hot keys, distinct, u64 extremes, same-position collisions h + j*total, neighbouring nibble h ^ 1, bursts up to 40) over counters in {1,2,3,5,17,100,1000, 2^k +- 1 <= 2^16, 1..300} at row / count-min / TinyLFU level; differential against the unpacked reference after every op; non-trivial = the stream saturates a counter, increments both nibbles of one byte, or crosses the ageing threshold",
        cases, std::sync::Arc::new(move || sketch_case_strategy(max_ops)), run_case);
    outcome.reports.push(report);
    if let Some((case, failure)) = found {
        let replay = Replay { property: "C14".to_string(), engine: "SKETCH".to_string(), campaign: "streams".to_string(), seed: context.seed, case: serde_json::to_value(&case).unwrap(), policy: json!({}), failure: Some(failure.clone()), note: "shrunk by proptest".to_string() };
        outcome.violations.push(Violation { replay_path: write_replay(&replay), failure });
    }
    if outcome.violations.is_empty() && context.tier == "thorough" && std::env::var("VERIF_NO_FUZZ").is_err() {
        let run_input = |bytes: &[u8]| {
            let case = crate::fuzzdec::sketch_case_from_bytes(bytes);
            (sketch_case_result(&case), serde_json::to_value(&case).unwrap_or(Value::Null), "SKETCH")
        };
        let (report, violation) = run_fuzz_campaign(context, "sketch", 40_000, &run_input);
        outcome.reports.push(report);
        if let Some(violation) = violation { outcome.violations.push(violation); }
    }
    outcome
}

fn run_c12(context: &CheckContext, mut outcome: CheckOutcome) -> CheckOutcome {
    use crate::ack::*;
    use crate::base::St;
    let thorough = context.tier == "thorough";
    outcome.assumptions = vec![
        "ACK: schedule points sit between the three statements of done() and the steps of poll(); a turnstile runs one step of one thread at a time and never schedules a step that would block on the waker slot, so an execution is a deterministic function of the choice vector".to_string(),
        "memory-ordering weakenings (e.g. Relaxed on the flag) are invisible to a serialising controller on x86; only the stress layer could see them, by luck".to_string(),
        "bounded shapes: <= 2 polling tasks, <= 3 polls per task; enumerated shapes are complete for their bound, the rest is sampled".to_string(),
    ];
    let push_violation = |outcome: &mut CheckOutcome, campaign: &str, case: serde_json::Value, engine: &str, failure: crate::model::Failure| {
        let replay = Replay { property: "C12".to_string(), engine: engine.to_string(), campaign: campaign.to_string(), seed: context.seed, case, policy: json!({}), failure: Some(failure.clone()), note: "deterministic: the schedule is the choice vector".to_string() };
        outcome.violations.push(Violation { replay_path: write_replay(&replay), failure });
    };
    // 1. exhaustive enumeration of bounded shapes
    let started = std::time::Instant::now();
    let mut shapes: Vec<Vec<Vec<PollSpec>>> = Vec::new();
    let spec = |new_waker| PollSpec { new_waker };
    shapes.push(vec![vec![spec(false)]]);
    for second in [false, true] { shapes.push(vec![vec![spec(false), spec(second)]]); }
    shapes.push(vec![vec![spec(false)], vec![spec(false)]]);
    for second in [false, true] { for third in [false, true] { shapes.push(vec![vec![spec(false), spec(second), spec(third)]]); } }
    for second in [false, true] { shapes.push(vec![vec![spec(false), spec(second)], vec![spec(false)]]); }
    if thorough {
        for second in [false, true] { for other in [false, true] { shapes.push(vec![vec![spec(false), spec(second)], vec![spec(false), spec(other)]]); } }
        shapes.push(vec![vec![spec(false)], vec![spec(false)], vec![spec(false)]]);
    }
    let statuses: Vec<St> = if thorough { vec![St::Accepted, St::RejSpace, St::RejWeight, St::RejMissing, St::RejExists, St::ShuttingDown] } else { vec![St::Accepted, St::RejExists] };
    let mut enumeration = CampaignReport { name: "enumerate".to_string(), engine: "ACK".to_string(), exhaustive: true,
        rule: "every schedule (interleaving of the steps of done() with the steps of the polls, waker slot respected) of each bounded shape is enumerated by stateless depth-first search; non-trivial = at least one poll step lies strictly between two steps of done(); each (shape, status, schedule) is distinct by construction".to_string(), ..CampaignReport::default() };
    let jobs: Vec<(St, Vec<Vec<PollSpec>>)> = statuses.iter().flat_map(|status| shapes.iter().map(move |shape| (*status, shape.clone()))).collect();
    let results: Vec<(u64, u64, Option<(AckCase, crate::model::Failure)>, bool)> = std::thread::scope(|scope| {
        let handles: Vec<_> = jobs.iter().map(|(status, shape)| scope.spawn(move || enumerate_shape(*status, shape, if thorough { 3_000_000 } else { 200_000 }))).collect();
        handles.into_iter().map(|handle| handle.join().unwrap()).collect()
    });
    for ((status, shape), (explored, nontrivial, failure, complete)) in jobs.iter().zip(results.into_iter()) {
        enumeration.evaluations += explored;
        enumeration.distinct_nontrivial += nontrivial;
        if !complete { enumeration.exhaustive = false; }
        if enumeration.samples.len() < 3 { enumeration.samples.push(json!({"status": status, "tasks": shape, "schedules": explored, "complete": complete})); }
        if let Some((case, failure)) = failure {
            if outcome.violations.is_empty() { push_violation(&mut outcome, "enumerate", serde_json::to_value(&case).unwrap(), "ACK", failure); }
        }
    }
    enumeration.wall_s = started.elapsed().as_secs_f64();
    outcome.reports.push(enumeration);
    if !outcome.violations.is_empty() { return outcome; }
    // 2. random schedules over larger shapes
    let run_case: std::sync::Arc<dyn Fn(&AckCase) -> CaseResult + Send + Sync> = std::sync::Arc::new(|case: &AckCase| ack_case_result(case));
    let (report, found) = run_campaign(context, "random-schedules", "ACK",
        "generated (final status, 1-2 polling tasks, 1-3 polls each, same/new waker per poll, choice vector); non-trivial = a poll step lies strictly between two steps of done(); distinct by hash of the case",
        if thorough { 200_000 } else { 12_000 }, std::sync::Arc::new(ack_case_strategy), run_case);
    outcome.reports.push(report);
    if let Some((case, failure)) = found { push_violation(&mut outcome, "random-schedules", serde_json::to_value(&case).unwrap(), "ACK", failure); return outcome; }
    // 3. end-to-end stress on a real cache
    let started = std::time::Instant::now();
    let puts: u64 = if thorough { 400_000 } else { 40_000 };
    let threads = context.workers.min(8) as u64;
    let results: Vec<(StressReport, Option<crate::model::Failure>)> = std::thread::scope(|scope| {
        let handles: Vec<_> = (0..threads).map(|index| scope.spawn(move || stress(puts, context.seed ^ (index << 32)))).collect();
        handles.into_iter().map(|handle| handle.join().unwrap()).collect()
    });
    let mut stress_report = CampaignReport { name: "stress".to_string(), engine: "ACK-E2E".to_string(),
        rule: "real cache, queue of 4: each put's acknowledgement is busy-polled (7 of 8) or polled-then-parked on its waker (1 of 8) while the worker completes it; Ready(Accepted) must make get() return the value at once; non-trivial = a put whose first poll was Pending (the poll raced the worker); counted per put".to_string(), ..CampaignReport::default() };
    for (report, failure) in results {
        stress_report.evaluations += report.puts;
        stress_report.distinct_nontrivial += report.raced_puts;
        if stress_report.samples.is_empty() { stress_report.samples.push(serde_json::to_value(&report).unwrap()); }
        if let Some(failure) = failure {
            if failure.property == "STALL" || failure.property == "C12" {
                if outcome.violations.is_empty() { push_violation(&mut outcome, "stress", json!({"puts": puts}), "ACK-STRESS", failure); }
            }
        }
    }
    stress_report.wall_s = started.elapsed().as_secs_f64();
    outcome.reports.push(stress_report);
    if !outcome.violations.is_empty() { return outcome; }
    // 4. acknowledged => executed and visible, on sequential histories with stall windows
    for campaign in seq_campaigns("C12") {
        let (report, violation) = run_seq_campaign(context, &campaign);
        outcome.reports.push(report);
        if let Some(violation) = violation { outcome.violations.push(violation); return outcome; }
    }
    run_conc_check(context, outcome)
}

/// Re-runs a saved case; exit code as for a check.
pub fn replay_file(property: &str, path: &str) -> i32 {
    let replay = match read_replay(path) {
        Ok(replay) => replay,
        Err(error) => { eprintln!("{}", error); return 2; }
    };
    let result = match replay.engine.as_str() {
        "SEQ" => replay_seq(&replay),
        "DIRECTED-F11" => Ok((0..20).find_map(|_| crate::conc::sweep_vs_reput_scenario(replay.case["delay_ms"].as_u64().unwrap_or(20)))),
        "VOLUME-PRESSURE" => decode_case::<crate::volume::PressureCase>(&replay.case).map(|case| (0..10).find_map(|_| crate::volume::run_pressure_case(&case).1)),
        "VOLUME" => decode_case::<crate::volume::VolCase>(&replay.case).map(|case| crate::volume::run_vol_case(&case).1),
        "DIRECTED-C16" => Ok((0..10).find_map(|_| crate::conc::stats_stress_scenario(replay.case["n"].as_u64().unwrap_or(20_000), replay.case["shards"].as_u64().unwrap_or(2) as usize))),
        "DIRECTED-F12" => Ok((0..20).find_map(|_| crate::conc::phantom_weight_scenario(replay.case["delay_ms"].as_u64().unwrap_or(20)))),
        "CONC" => decode_case::<crate::conc::ConcCase>(&replay.case).map(|case| {
            // the stored failure is the observed one; try to reproduce it by re-executing
            for _ in 0..50 {
                let (result, _) = crate::conc::conc_case_result(&case, property, 3, std::time::Duration::from_secs(10), |_| false);
                if result.failure.is_some() { return result.failure; }
            }
            println!("the program did not fail again in 150 executions; the recorded failing history is in the replay file (policy.observed_history)");
            None
        }),
        "ACK" => decode_case::<crate::ack::AckCase>(&replay.case).map(|case| crate::ack::run_ack_case(&case).1.map(|mut failure| { if replay.property == "C13" && failure.property == "C12" { failure.also.push("C13".to_string()); } failure })),
        "ACK-STRESS" => Ok(crate::ack::stress(replay.case["puts"].as_u64().unwrap_or(40_000), replay.seed).1),
        "SKETCH" => decode_case::<crate::sketch::SketchCase>(&replay.case).map(|case| crate::sketch::run_sketch_case(&case).1),
        "SKETCH-TABLE" => Ok(crate::sketch::exhaustive_byte_table().1),
        other => Err(format!("unknown engine {}", other)),
    };
    match result {
        Err(error) => { eprintln!("{}", error); 2 }
        Ok(None) => { println!("replay of {} passed (no oracle failed)", path); 0 }
        Ok(Some(failure)) => {
            if failure.concerns(property) || property == "any" {
                println!("VIOLATION property={} replay={}", if property == "any" { failure.property.as_str() } else { property }, path);
            } else {
                println!("replay fails an oracle of {} (not {}):", failure.property, property);
            }
            println!("  cause tag: {}\n  at op #{}: {}", failure.tag, failure.at_op, failure.message);
            1
        }
    }
}
