//! Dispatch: which engines serve which property; replay of saved cases.

use serde_json::{json, Value};

use crate::checks::*;
use crate::runner::*;

pub struct CheckOutcome {
    pub reports: Vec<CampaignReport>,
    pub violations: Vec<Violation>,
    pub assumptions: Vec<String>,
    pub extra: Value,
}

pub fn seq_assumptions() -> Vec<String> {
    vec![
        "SEQ: one harness thread; the harness owns the clock; after every clock change one complete sweep is awaited, so the physical state is a function of the history".to_string(),
        "the reference model (harness/src/model.rs, seq*.rs) is the trusted base; it is written from the property statements and public docs".to_string(),
        "hooks (cargo feature verif_hooks) are read-only accessors, counters, a worker gate and trace events; they add no behaviour".to_string(),
        "exploration only: the property held on every generated case; absence of violations elsewhere is not established".to_string(),
    ]
}

pub fn run_check(context: &CheckContext) -> CheckOutcome {
    let mut outcome = CheckOutcome { reports: Vec::new(), violations: Vec::new(), assumptions: Vec::new(), extra: json!({}) };
    // witnesses of open known findings are replayed first: each must still fail for its recorded cause
    let mut witness_report = CampaignReport { name: "known-finding-witnesses".to_string(), engine: "SEQ".to_string(), rule: "deterministic replay of the witness history of every open known finding of this property".to_string(), ..CampaignReport::default() };
    for finding in context.known.iter().filter(|finding| finding.property == context.property && finding.status == "open") {
        let Some(witness) = &finding.witness_case else { continue };
        let (Ok(case), policy) = (decode_case::<crate::case::SeqCase>(&witness["case"]), serde_json::from_value::<crate::model::Policy>(witness["policy"].clone()).unwrap_or_default()) else { continue };
        let result = crate::seq::run_seq_case(&case, &policy);
        witness_report.evaluations += 1;
        if let Some(failure) = result.failure {
            match context.relevance(&failure) {
                Relevance::Known(id) => { *witness_report.known_findings_hit.entry(id).or_insert(0) += 1; }
                Relevance::Violation => {
                    let replay = Replay { property: context.property.clone(), engine: "SEQ".to_string(), campaign: format!("witness-{}", finding.id), seed: context.seed, case: witness["case"].clone(), policy: witness["policy"].clone(), failure: Some(failure.clone()), note: "witness of a known finding failed for a different cause".to_string() };
                    outcome.violations.push(Violation { replay_path: write_replay(&replay), failure });
                }
                _ => { *witness_report.other_property_failures.entry(failure.tag.clone()).or_insert(0) += 1; }
            }
        }
    }
    if witness_report.evaluations > 0 { outcome.reports.push(witness_report); }
    if !outcome.violations.is_empty() { return outcome; }
    let campaigns = seq_campaigns(&context.property);
    if !campaigns.is_empty() { outcome.assumptions.extend(seq_assumptions()); }
    for campaign in campaigns {
        let (report, violation) = run_seq_campaign(context, &campaign);
        outcome.reports.push(report);
        if let Some(violation) = violation {
            outcome.violations.push(violation);
            break;
        }
    }
    outcome
}

/// Re-runs a saved case; exit code as for a check.
pub fn replay_file(property: &str, path: &str) -> i32 {
    let replay = match read_replay(path) {
        Ok(replay) => replay,
        Err(error) => { eprintln!("{}", error); return 2; }
    };
    let result = match replay.engine.as_str() {
        "SEQ" => replay_seq(&replay),
        other => Err(format!("unknown engine {}", other)),
    };
    match result {
        Err(error) => { eprintln!("{}", error); 2 }
        Ok(None) => { println!("replay of {} passed (no oracle failed)", path); 0 }
        Ok(Some(failure)) => {
            if failure.property == property || property == "any" {
                println!("VIOLATION property={} replay={}", failure.property, path);
            } else {
                println!("replay fails an oracle of {} (not {}):", failure.property, property);
            }
            println!("  cause tag: {}\n  at op #{}: {}", failure.tag, failure.at_op, failure.message);
            1
        }
    }
}
