//! Reference model of the cache (DESIGN.md appendix A) and the failure / statistics types shared by engines.
//! Written from the property statements and the public documentation; it knows nothing about shards,
//! locks or queues. Key ids are adopted from observation only to line model entries up with snapshots.

use std::collections::BTreeMap;
use std::time::Duration;

use serde::{Deserialize, Serialize};

use crate::base::St;

#[derive(Clone, Debug, Serialize, Deserialize)]
pub struct Failure {
    /// property whose oracle failed
    pub property: String,
    /// cause tag: (property / op kind / key state / relation), used to match known findings
    pub tag: String,
    pub message: String,
    /// index of the top-level op at which it failed
    pub at_op: usize,
    /// other properties whose statement the same observation violates as well
    #[serde(default)]
    pub also: Vec<String>,
}

impl Failure {
    pub fn new(property: &str, tag: &str, message: String) -> Self {
        Failure { property: property.to_string(), tag: tag.to_string(), message, at_op: usize::MAX, also: Vec::new() }
    }
}

impl Failure {
    pub fn with_also(mut self, also: Vec<String>) -> Self { self.also = also; self }
    pub fn concerns(&self, property: &str) -> bool { self.property == property || self.also.iter().any(|other| other == property) }
}

pub type Check<T = ()> = Result<T, Failure>;

#[macro_export]
macro_rules! ensure {
    ($cond:expr, $prop:expr, $tag:expr, $($fmt:tt)+) => {
        if !($cond) {
            return Err($crate::model::Failure::new($prop, $tag, format!($($fmt)+)));
        }
    };
}

#[derive(Clone, Debug, PartialEq, Eq)]
pub struct Entry {
    pub value: u64,
    pub weight: i64,
    /// deadline as time since the epoch
    pub deadline: Option<Duration>,
    pub soft_deleted: bool,
    /// adopted from observation (0 = not yet known)
    pub id: u64,
    pub incarnation: u32,
    /// the last accepted write of this key was a put_or_update
    pub last_write_upsert: bool,
    /// the charged weight was last set by an upsert that requested it explicitly
    pub explicit_weight: bool,
    /// an explicit weight update was acknowledged since the last comparison with the physical state
    pub explicit_weight_pending: bool,
}

#[derive(Clone, Debug, Default, PartialEq, Eq)]
pub struct ExpStats {
    pub hits: u64,
    pub misses: u64,
    pub keys_added: u64,
    pub keys_deleted: u64,
    pub keys_rejected: u64,
    pub weight_added: u64,
    pub weight_removed: u64,
}

/// Pending queued command inside a stall window.
#[derive(Clone, Debug)]
pub enum Pending {
    Put { k: u8, value: u64, weight: i64, ttl: Option<Duration>, issued_now: Duration, from_upsert: bool },
    UpdateWeight { k: u8, incarnation: u32, weight: i64, explicit: bool, over_limit: bool },
    Delete { k: u8 },
}

#[derive(Clone, Debug)]
pub struct Model {
    pub limit: i64,
    pub shards: usize,
    pub now: Duration,
    pub held: BTreeMap<u8, Entry>,
    pub stats: ExpStats,
    pub incarnations: BTreeMap<u8, u32>,
    /// ids of evicted / deleted entries whose expiry-index entry may legitimately linger
    pub dead_ids: Vec<u64>,
}

impl Model {
    pub fn new(limit: i64, shards: usize, now: Duration) -> Self {
        Model { limit, shards, now, held: BTreeMap::new(), stats: ExpStats::default(), incarnations: BTreeMap::new(), dead_ids: Vec::new() }
    }

    pub fn used(&self) -> i128 { self.held.values().map(|entry| entry.weight as i128).sum() }

    pub fn free(&self) -> i128 { self.limit as i128 - self.used() }

    pub fn expired(&self, entry: &Entry) -> bool { entry.deadline.map(|deadline| self.now > deadline).unwrap_or(false) }

    pub fn readable(&self, k: u8) -> bool {
        self.held.get(&k).map(|entry| !entry.soft_deleted && !self.expired(entry)).unwrap_or(false)
    }

    pub fn read(&mut self, k: u8) -> Option<u64> {
        if self.readable(k) {
            self.stats.hits += 1;
            Some(self.held[&k].value)
        } else {
            self.stats.misses += 1;
            None
        }
    }

    pub fn next_incarnation(&mut self, k: u8) -> u32 {
        let counter = self.incarnations.entry(k).or_insert(0);
        *counter += 1;
        *counter
    }

    /// Removes a held key for any reason (delete, eviction, sweep) and accounts for it.
    pub fn remove(&mut self, k: u8) -> Option<Entry> {
        let entry = self.held.remove(&k)?;
        self.stats.keys_deleted += 1;
        self.stats.weight_removed = self.stats.weight_removed.wrapping_add(entry.weight as u64);
        if entry.id != 0 { self.dead_ids.push(entry.id); }
        Some(entry)
    }

    pub fn insert(&mut self, k: u8, value: u64, weight: i64, deadline: Option<Duration>, id: u64) {
        let incarnation = self.next_incarnation(k);
        self.held.insert(k, Entry { value, weight, deadline, soft_deleted: false, id, incarnation, last_write_upsert: false, explicit_weight: false, explicit_weight_pending: false });
        self.stats.keys_added += 1;
        self.stats.weight_added = self.stats.weight_added.wrapping_add(weight as u64);
    }

    pub fn set_weight(&mut self, k: u8, weight: i64) {
        if let Some(entry) = self.held.get_mut(&k) {
            let delta = weight.wrapping_sub(entry.weight);
            self.stats.weight_added = self.stats.weight_added.wrapping_add(delta as u64);
            entry.weight = weight;
        }
    }

    pub fn key_of_id(&self, id: u64) -> Option<u8> {
        self.held.iter().find(|(_, entry)| entry.id == id).map(|(k, _)| *k)
    }

    pub fn shard_of(&self, deadline: Duration) -> usize { (deadline.as_secs() as usize) % self.shards }
}

/// What a case exercised: used for the non-triviality rules and the class histograms in the evidence.
#[derive(Clone, Debug, Default, Serialize, Deserialize)]
pub struct CaseStats {
    /// writes executed on a key that was past its time-to-live while the sweeper was parked (ExpiredWrite)
    pub expired_unswept_writes: u32,
    pub ops_executed: u32,
    pub writes: u32,
    pub reads: u32,
    pub hits: u32,
    pub accepted_puts: u32,
    pub evictions: u32,
    pub multi_victim_puts: u32,
    pub partial_evict_then_reject: u32,
    pub tie_evictions: u32,
    pub saturated_estimates: u32,
    pub small_samples: u32,
    pub rejected_space: u32,
    pub rejected_weight: u32,
    pub rejected_exists: u32,
    pub rejected_exists_at_worker: u32,
    pub deletes_accepted: u32,
    pub deletes_rejected: u32,
    pub swept_keys: u32,
    pub sweeps_with_survivor: u32,
    pub advances: u32,
    pub rotations: u32,
    pub stall_windows: u32,
    pub worker_steps: u32,
    pub jumps_inside_operations: u32,
    pub iterator_steps_after_write: u32,
    pub same_key_bursts: u32,
    pub reads_in_stall_after_delete: u32,
    pub observations_in_stall: u32,
    pub reincarnations: u32,
    pub ttl_changes: u32,
    pub ttl_removed: u32,
    pub sweep_after_ttl_change: u32,
    pub reput_of_ttl_key: u32,
    pub reads_near_deadline_before: u32,
    pub reads_near_deadline_after: u32,
    pub upserts_in_place: u32,
    pub upserts_as_put: u32,
    pub upsert_shapes: u32,
    pub repeated_upserts: u32,
    pub puts_on_used_key: u32,
    pub weight_decreases: u32,
    pub boundary_args: u32,
    pub ops_after_boundary: u32,
    pub sketch_resets: u32,
    pub max_used_permille: u32,
    pub sweep_released_while_queued: u32,
    pub stats_checks: u32,
    pub snapshot_checks: u32,
    pub all_hit: bool,
    pub all_miss: bool,
    /// draws suppressed because they trigger a recorded known finding (by finding id)
    pub suppressed: BTreeMap<String, u32>,
    pub adjusted_ops: u32,
}

impl CaseStats {
    pub fn suppress(&mut self, finding: &str) { *self.suppressed.entry(finding.to_string()).or_insert(0) += 1; }
}

/// Known-finding switches (DESIGN.md section 4). All false in main campaigns; probes turn one on.
#[derive(Clone, Debug, Default, Serialize, Deserialize, PartialEq, Eq)]
pub struct Policy {
    pub allow_over_limit_upsert: bool,
    /// with `allow_over_limit_upsert`: a breach of the weight bound that the model explains (the recorded finding F5) is
    /// noted and reported at the end of the case instead of ending it, also when the check is about C01: what the cache
    /// does after the breach (the next admission must repair it) stays under test
    #[serde(default)]
    pub note_over_limit: bool,
    pub allow_put_on_expired_unswept: bool,
    pub allow_upsert_on_dead_entry: bool,
    pub allow_ttl_overflow: bool,
    pub allow_ttl_toggle_small_weight: bool,
}

pub fn st_name(status: St) -> &'static str {
    match status {
        St::Pending => "Pending",
        St::Accepted => "Accepted",
        St::RejSpace => "Rejected(EnoughSpaceIsNotAvailable)",
        St::RejWeight => "Rejected(KeyWeightIsGreaterThanCacheWeight)",
        St::RejMissing => "Rejected(KeyDoesNotExist)",
        St::RejExists => "Rejected(KeyAlreadyExists)",
        St::RejOther => "Rejected(?)",
        St::ShuttingDown => "ShuttingDown",
    }
}
