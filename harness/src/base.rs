//! Shared plumbing: harness clock, acknowledgement polling without an async runtime,
//! panic attribution, small wait helpers.

use std::future::Future;
use std::pin::Pin;
use std::sync::atomic::{AtomicBool, AtomicU64, Ordering};
use std::sync::{Arc, Once};
use std::task::{Context, Poll, RawWaker, RawWakerVTable, Waker};
use std::time::{Duration, Instant, SystemTime, UNIX_EPOCH};

use serde::{Deserialize, Serialize};
use tinylfu_cached::cache::clock::Clock;
use tinylfu_cached::cache::command::acknowledgement::CommandAcknowledgement;
use tinylfu_cached::cache::command::{CommandStatus, RejectionReason};
use tinylfu_cached::cache::verif;

/// Base of the harness clock: 1_000_000_000 s after the epoch (2001-09-09).
pub const BASE_SECS: u64 = 1_000_000_000;

/// A clock owned by the harness: nanoseconds since the epoch in an atomic. Never reads the wall clock.
#[derive(Clone)]
pub struct HClock(pub Arc<AtomicU64>, Arc<AtomicU64>, Arc<AtomicU64>);

impl HClock {
    pub fn new(start_ns: u64) -> Self { HClock(Arc::new(AtomicU64::new(start_ns)), Arc::new(AtomicU64::new(u64::MAX)), Arc::new(AtomicU64::new(0))) }
    pub fn set(&self, ns: u64) { self.0.store(ns, Ordering::SeqCst); }
    pub fn get(&self) -> u64 { self.0.load(Ordering::SeqCst) }

    /// Arms a jump in the middle of an operation: the reading number `after_reads` (0 = the next one) still returns the
    /// current time, every later reading returns the time advanced by `jump_ns`. Real clocks move between two readings
    /// of one operation; this makes that moment a generated input.
    pub fn arm_jump(&self, after_reads: u64, jump_ns: u64) {
        self.2.store(jump_ns, Ordering::SeqCst);
        self.1.store(after_reads, Ordering::SeqCst);
    }

    /// Disarms; returns true if the armed jump has happened.
    pub fn disarm(&self) -> bool { self.1.swap(u64::MAX, Ordering::SeqCst) == u64::MAX }
}

impl Clock for HClock {
    fn now(&self) -> SystemTime {
        let value = self.0.load(Ordering::SeqCst);
        if self.1.load(Ordering::SeqCst) != u64::MAX {
            let remaining = self.1.fetch_sub(1, Ordering::SeqCst);
            if remaining == 0 {
                self.1.store(u64::MAX, Ordering::SeqCst);
                self.0.fetch_add(self.2.load(Ordering::SeqCst), Ordering::SeqCst);
            } else if remaining == u64::MAX {
                // lost a race with disarm: undo
                self.1.store(u64::MAX, Ordering::SeqCst);
            }
        }
        UNIX_EPOCH + Duration::from_nanos(value)
    }
}

pub fn since_epoch(time: SystemTime) -> Duration { time.duration_since(UNIX_EPOCH).expect("before epoch") }

/// Serializable mirror of `CommandStatus`.
#[derive(Copy, Clone, Debug, Eq, PartialEq, Hash, Serialize, Deserialize)]
pub enum St {
    Pending,
    Accepted,
    RejSpace,
    RejWeight,
    RejMissing,
    RejExists,
    RejOther,
    ShuttingDown,
}

impl From<CommandStatus> for St {
    fn from(status: CommandStatus) -> Self {
        match status {
            CommandStatus::Pending => St::Pending,
            CommandStatus::Accepted => St::Accepted,
            CommandStatus::ShuttingDown => St::ShuttingDown,
            CommandStatus::Rejected(RejectionReason::EnoughSpaceIsNotAvailableAndKeyFailedToEvictOthers) => St::RejSpace,
            CommandStatus::Rejected(RejectionReason::KeyWeightIsGreaterThanCacheWeight) => St::RejWeight,
            CommandStatus::Rejected(RejectionReason::KeyDoesNotExist) => St::RejMissing,
            CommandStatus::Rejected(RejectionReason::KeyAlreadyExists) => St::RejExists,
            CommandStatus::Rejected(_) => St::RejOther,
        }
    }
}

impl St {
    pub fn to_status(self) -> CommandStatus {
        match self {
            St::Pending => CommandStatus::Pending,
            St::Accepted => CommandStatus::Accepted,
            St::ShuttingDown => CommandStatus::ShuttingDown,
            St::RejSpace => CommandStatus::Rejected(RejectionReason::EnoughSpaceIsNotAvailableAndKeyFailedToEvictOthers),
            St::RejWeight => CommandStatus::Rejected(RejectionReason::KeyWeightIsGreaterThanCacheWeight),
            St::RejMissing | St::RejOther => CommandStatus::Rejected(RejectionReason::KeyDoesNotExist),
            St::RejExists => CommandStatus::Rejected(RejectionReason::KeyAlreadyExists),
        }
    }
}

// ---------------------------------------------------------------------------------------------
// Wakers

fn noop_raw_waker() -> RawWaker {
    fn no_op(_: *const ()) {}
    fn clone(_: *const ()) -> RawWaker { noop_raw_waker() }
    static VTABLE: RawWakerVTable = RawWakerVTable::new(clone, no_op, no_op, no_op);
    RawWaker::new(std::ptr::null(), &VTABLE)
}

pub fn noop_waker() -> Waker { unsafe { Waker::from_raw(noop_raw_waker()) } }

/// A waker that counts how often it was woken.
pub struct CountingWaker {
    pub wakes: AtomicU64,
}

impl std::task::Wake for CountingWaker {
    fn wake(self: Arc<Self>) { self.wakes.fetch_add(1, Ordering::SeqCst); }
    fn wake_by_ref(self: &Arc<Self>) { self.wakes.fetch_add(1, Ordering::SeqCst); }
}

pub fn counting_waker() -> (Arc<CountingWaker>, Waker) {
    let counter = Arc::new(CountingWaker { wakes: AtomicU64::new(0) });
    (counter.clone(), Waker::from(counter))
}

/// One poll of an acknowledgement with the given waker.
pub fn poll_once(ack: &CommandAcknowledgement, waker: &Waker) -> Option<CommandStatus> {
    let mut context = Context::from_waker(waker);
    let mut handle = ack.handle();
    match Pin::new(&mut handle).poll(&mut context) {
        Poll::Ready(status) => Some(status),
        Poll::Pending => None,
    }
}

#[derive(Debug, Clone, PartialEq, Eq)]
pub enum WaitError {
    /// a thread of the cache panicked while we were waiting
    Panicked(Vec<String>),
    /// nothing happened for the whole watchdog period
    Stalled,
}

/// Watchdog for waits inside one case. Generous: it is never used as a correctness signal by itself,
/// a stall is reported as inconclusive unless the property at hand is about progress.
pub const WATCHDOG: Duration = Duration::from_secs(20);

/// Polls until the acknowledgement is ready. Spins briefly, then yields, then sleeps.
pub fn await_ack(ack: &CommandAcknowledgement, instance: &verif::Instance) -> Result<CommandStatus, WaitError> {
    let waker = noop_waker();
    wait_for(instance, || poll_once(ack, &waker))
}

/// Waits until `probe` returns `Some`.
pub fn wait_for<T>(instance: &verif::Instance, mut probe: impl FnMut() -> Option<T>) -> Result<T, WaitError> {
    let mut spins: u32 = 0;
    let mut started: Option<Instant> = None;
    loop {
        if let Some(value) = probe() { return Ok(value); }
        spins += 1;
        if spins < 200 {
            std::hint::spin_loop();
        } else if spins < 2000 {
            std::thread::yield_now();
        } else {
            if instance.has_panicked() {
                // give the probe one more chance, then report
                if let Some(value) = probe() { return Ok(value); }
                return Err(WaitError::Panicked(instance.panics()));
            }
            let begin = *started.get_or_insert_with(Instant::now);
            if begin.elapsed() > WATCHDOG { return Err(WaitError::Stalled); }
            std::thread::sleep(Duration::from_micros(50));
        }
    }
}

// ---------------------------------------------------------------------------------------------
// Panic attribution

thread_local! {
    static HARNESS_THREAD: std::cell::Cell<bool> = std::cell::Cell::new(false);
}

pub static VERBOSE_PANICS: AtomicBool = AtomicBool::new(false);

/// Marks the current thread as a harness (caller) thread: its panics are caught by the harness itself
/// (`catch_unwind`) and are recorded with the prefix `caller:`; panics of any other thread that belongs to a
/// cache are recorded with the prefix `background:`.
pub fn mark_harness_thread() { HARNESS_THREAD.with(|flag| flag.set(true)); }

/// Installs the process-wide panic hook once. The hook attributes a panic to the cache instance installed on
/// the panicking thread (the hooks install it on every background thread of a cache).
pub fn install_panic_hook() {
    static ONCE: Once = Once::new();
    ONCE.call_once(|| {
        let default_hook = std::panic::take_hook();
        std::panic::set_hook(Box::new(move |info| {
            let location = info.location().map(|l| format!("{}:{}", l.file(), l.line())).unwrap_or_default();
            let payload = if let Some(s) = info.payload().downcast_ref::<&str>() { s.to_string() } else if let Some(s) = info.payload().downcast_ref::<String>() { s.clone() } else { "<non-string panic>".to_string() };
            let harness = HARNESS_THREAD.with(|flag| flag.get());
            let message = format!("{}: {} at {}", if harness { "caller" } else { "background" }, payload, location);
            match verif::installed() {
                Some(instance) => instance.record_panic(message.clone()),
                None => {
                    if !harness { default_hook(info); }
                }
            }
            if VERBOSE_PANICS.load(Ordering::Relaxed) { eprintln!("[panic] {}", message); }
        }));
    });
}

/// FNV-1a, for case hashes (stable across runs, unlike `DefaultHasher` with random keys).
pub fn fnv1a(bytes: &[u8]) -> u64 {
    let mut hash: u64 = 0xcbf29ce484222325;
    for byte in bytes {
        hash ^= *byte as u64;
        hash = hash.wrapping_mul(0x100000001b3);
    }
    hash
}

/// splitmix64, for deriving per-thread seeds and for deterministic injection decisions.
pub fn splitmix(state: &mut u64) -> u64 {
    *state = state.wrapping_add(0x9E3779B97F4A7C15);
    let mut z = *state;
    z = (z ^ (z >> 30)).wrapping_mul(0xBF58476D1CE4E5B9);
    z = (z ^ (z >> 27)).wrapping_mul(0x94D049BB133111EB);
    z ^ (z >> 31)
}
