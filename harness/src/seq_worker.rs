// Included into seq.rs: worker-side model application, op interpreter, case runner.

#[derive(Clone, Debug, Default)]
pub struct Estimates {
    pub by_id: BTreeMap<u64, u8>,
    pub incoming: u8,
    pub valid: bool,
    /// accesses recorded by the sketch since its last ageing, when the estimates were read
    pub increments: u64,
    /// how often the sketch had aged when the estimates were read
    pub resets: u64,
}

struct CommandEvents {
    begin: Option<(u64, i64, i64, i64)>,
    steps: Vec<Event>,
    executed_status: St,
}

impl Exec {
    fn pre_read_estimates(&mut self, k: u8) -> Check<Estimates> {
        // with background readers: they are paused while the frozen estimates are read (their own keys are saturated, so
        // their traffic does not change any estimate afterwards), then resumed so that the decision is taken under contention
        if let Some(noise) = &self.noise {
            noise.pause();
            // push the harness's own still-buffered access records out of the (single) pool buffer with reads of a
            // saturated noise key, so that nothing but noise records can reach the sketch after the estimates were read
            // (only a hit records an access: the flush counts hits, on whichever noise key is still held; if the noise keys
            // have been evicted the buffer cannot be flushed and the estimates are not used)
            let needed = self.cfg.buf * self.cfg.pool + 1;
            let mut flushed = 0;
            for attempt in 0..(3 * needed) {
                let key = NOISE_KEYS[attempt % NOISE_KEYS.len()] as u64;
                if self.cache.get(&key).is_some() { flushed += 1; if flushed >= needed { break; } }
            }
            let result = self.pre_read_estimates_quiescent(k).map(|mut estimates| { if flushed < needed { estimates.valid = false; } estimates });
            if let Some(noise) = &self.noise { noise.resume(); }
            return result;
        }
        self.pre_read_estimates_quiescent(k)
    }

    fn pre_read_estimates_quiescent(&mut self, k: u8) -> Check<Estimates> {
        self.wait_sketch_quiescent()?;
        let (increments, _) = self.cache.verif_sketch_progress();
        if increments < self.last_sketch_increments { self.stats.sketch_resets += 1; }
        self.last_sketch_increments = increments;
        let mut estimates = Estimates::default();
        let cache = &self.cache;
        let held: Vec<(u8, u64)> = self.model.held.iter().map(|(held_k, entry)| (*held_k, entry.id)).collect();
        // if reading an estimate panics (broken sketch) the cross-check is skipped: the worker will hit the same panic
        // itself and that is then reported as what it is, a dead background thread
        let read = catch_unwind(AssertUnwindSafe(|| {
            let mut by_id = BTreeMap::new();
            for (held_k, id) in &held { by_id.insert(*id, cache.verif_estimate(cache.verif_hash_of(&(*held_k as u64)))); }
            (by_id, cache.verif_estimate(cache.verif_hash_of(&(k as u64))))
        }));
        match read {
            Ok((by_id, incoming)) => { estimates.by_id = by_id; estimates.incoming = incoming; estimates.valid = true; estimates.increments = cache.verif_sketch_progress().0; estimates.resets = cache.verif_sketch_resets(); }
            Err(_) => { estimates.valid = false; }
        }
        Ok(estimates)
    }

    /// At the instant now == deadline (clock frozen, sweeper parked): if the cache answers get(k) with the value it
    /// considers the key readable at this instant, and a put of k at the same instant must be Rejected(KeyAlreadyExists).
    fn probe_put_on_deadline(&mut self, k: u8) -> Check {
        let key = k as u64;
        let got = self.call("get", |cache| cache.get(&key))?;
        self.settle_read(ReadKind::Get, k, got)?;
        if got.is_none() || !self.model.held.contains_key(&k) { return Ok(()); }
        let value = self.next_token(k);
        let what = format!("put(k={}, w=7) at the instant now == deadline", k);
        let result = self.call(&what, |cache| cache.put_with_weight(key, value, 7))?;
        let ack = self.unwrap_send(result, &what)?;
        self.keep_alive.push(ack.clone());
        self.stats.writes += 1;
        let status = match poll_once(&ack, &noop_waker()) { Some(status) => St::from(status), None => self.wait_ack(&ack, &what)? };
        ensure!(status == St::RejExists, "C07", "C07/put-on-readable", "{}: get({}) returned the value at this very instant (the cache serves the key), yet the put was answered {:?} instead of Rejected(KeyAlreadyExists)", what, k, status);
        self.stats.rejected_exists += 1;
        Ok(())
    }

    fn describe(cmd: &Pending) -> String {
        match cmd {
            Pending::Put { k, weight, ttl, .. } => format!("put(k={}, w={}, ttl={:?})", k, weight, ttl),
            Pending::UpdateWeight { k, weight, .. } => format!("weight update(k={}, w={})", k, weight),
            Pending::Delete { k } => format!("delete(k={})", k),
        }
    }

    /// Awaits queued commands (FIFO) and applies them to the model in order, validating statuses and admission steps.
    fn complete_pending(&mut self, cmds: Vec<PendingCmd>, estimates: Option<Estimates>) -> Check {
        if cmds.is_empty() { return Ok(()); }
        let mut estimates = estimates;
        // C11: when the last acknowledgement is complete every earlier queued one is complete already
        let last = cmds.last().unwrap();
        let last_what = Self::describe(&last.cmd);
        let overflow = cmds.iter().any(|pending| matches!(&pending.cmd, Pending::Put { ttl: Some(ttl), .. } if self.ttl_overflows(*ttl)));
        let last_status = match self.wait_ack(&last.ack, &last_what) {
            Ok(status) => status,
            Err(mut failure) => {
                if overflow && failure.property == "C17" { failure.tag = "C17/ttl-overflow".to_string(); }
                else if failure.property == "C17" && cmds.iter().any(|pending| matches!(&pending.cmd, Pending::UpdateWeight { over_limit: true, .. })) { failure.tag = "C17/upsert-weight-overflow".to_string(); }
                return Err(failure);
            }
        };
        let waker = noop_waker();
        let mut statuses = Vec::new();
        for (index, pending) in cmds.iter().enumerate() {
            if index + 1 == cmds.len() { statuses.push(last_status); break; }
            match poll_once(&pending.ack, &waker) {
                Some(status) => statuses.push(St::from(status)),
                None => return Err(Failure::new("C11", "C11/ack-order", format!("the acknowledgement of {} (queued later) completed while that of {} (queued earlier by the same thread) is still pending", last_what, Self::describe(&pending.cmd)))),
            }
        }
        for (pending, status) in cmds.iter().zip(statuses.iter()) {
            ensure!(*status != St::Pending, "C12", "C12/ready-pending", "the acknowledgement of {} resolved to the placeholder status Pending", Self::describe(&pending.cmd));
            ensure!(*status != St::ShuttingDown, "C13", "C13/shutting-down-without-shutdown", "{} was acknowledged ShuttingDown although shutdown was never called", Self::describe(&pending.cmd));
        }
        // the sketch aged (all counters halved) between the reading of the estimates and the decision, which background
        // readers can bring about in a long case: the pre-read estimates say nothing about the ones the decision saw
        if let Some(read) = &mut estimates {
            // with background readers, once the sketch has aged in this case their keys are no longer saturated and no longer
            // all in the first-access filter: their traffic moves counters and filter bits again, which can collide with
            // those of other keys; the estimates are not frozen any more
            let resets = self.cache.verif_sketch_resets();
            let aged = resets != read.resets || self.cache.verif_sketch_progress().0 < read.increments || (self.noise.is_some() && (resets > 0 || self.stats.sketch_resets > 0));
            if read.valid && aged { read.valid = false; self.stats.adjusted_ops += 1; }
        }
        // split the trace per executed command
        let trace = self.inst.take_trace();
        let mut per_command: HashMap<usize, CommandEvents> = HashMap::new();
        let mut order: Vec<usize> = Vec::new();
        let mut begin = None;
        let mut steps = Vec::new();
        for event in trace {
            match event {
                Event::AdmissionBegin { id, weight, max_weight, space_left } => begin = Some((id, weight, max_weight, space_left)),
                Event::AdmissionStep { .. } => steps.push(event),
                Event::Executed { ack, status, .. } => {
                    order.push(ack);
                    ensure!(per_command.insert(ack, CommandEvents { begin: begin.take(), steps: std::mem::take(&mut steps), executed_status: St::from(status) }).is_none(),
                        "C11", "C11/executed-twice", "a queued command was executed twice (acknowledgement {:#x})", ack);
                }
                _ => {}
            }
        }
        let expected_order: Vec<usize> = cmds.iter().map(|pending| pending.ack.verif_id() as usize).collect();
        let executed_of_ours: Vec<usize> = order.iter().copied().filter(|ack| expected_order.contains(ack)).collect();
        let expected_executed: Vec<usize> = expected_order.iter().copied().filter(|ack| executed_of_ours.contains(ack)).collect();
        ensure!(executed_of_ours == expected_executed, "C11", "C11/execution-order", "queued commands were executed in order {:?}, submitted in order {:?} ({:?})", executed_of_ours, expected_order, cmds.iter().map(|pending| Self::describe(&pending.cmd)).collect::<Vec<_>>());
        if executed_of_ours.len() != expected_order.len() {
            // a write the model expects to be queued was acknowledged without ever being executed by the worker
            let missing: Vec<String> = cmds.iter().filter(|pending| !executed_of_ours.contains(&(pending.ack.verif_id() as usize))).map(|pending| Self::describe(&pending.cmd)).collect();
            self.soft(Failure::new("C11", "C11/acknowledged-but-never-executed", format!("{:?} were acknowledged but the command worker never executed them (submitted: {:?})", missing, cmds.iter().map(|pending| Self::describe(&pending.cmd)).collect::<Vec<_>>())).with_also(vec!["C12".to_string()]))?;
        }
        let many = cmds.len() > 1;
        for (pending, status) in cmds.into_iter().zip(statuses.into_iter()) {
            let events = per_command.remove(&(pending.ack.verif_id() as usize)).unwrap_or(CommandEvents { begin: None, steps: Vec::new(), executed_status: status });
            ensure!(events.executed_status == status, "C12", "C12/status-differs", "{} ended with {:?} on the worker but its acknowledgement reads {:?}", Self::describe(&pending.cmd), events.executed_status, status);
            let what = Self::describe(&pending.cmd);
            match pending.cmd {
                Pending::Put { k, value, weight, ttl, from_upsert, .. } => {
                    let expected = self.apply_put(k, value, weight, ttl, &events, if many { None } else { estimates.as_ref().filter(|estimates| estimates.valid) }, status)?;
                    if expected != status {
                        let (property, tag) = match (expected, status) {
                            (St::RejExists, St::Accepted) if !many => ("C07", "C07/put-on-readable"),
                            (St::RejExists, St::Accepted) => ("C05", "C05/put-on-held-at-apply/accepted"),
                            (_, St::RejExists) => ("C07", "C07/put-on-absent/worker"),
                            (St::RejWeight, _) | (_, St::RejWeight) => ("C06", "C06/over-weight-status"),
                            (St::Accepted, St::RejSpace) if (weight as i128) <= self.model.free() + weight as i128 && events.steps.is_empty() => ("C06", "C06/fits-but-rejected"),
                            _ => ("C06", "C06/status"),
                        };
                        // a put accepted by the worker although the key was held and readable when it was applied overwrote a readable key: also C07
                        let also = if tag == "C05/put-on-held-at-apply/accepted" && self.model.readable(k) { vec!["C07".to_string()] } else { Vec::new() };
                        return Err(Failure::new(property, tag, format!("{} was acknowledged {:?}, expected {:?} (limit {}, model now holds {:?})", what, status, expected, self.cfg.max_weight, self.model.held)).with_also(also));
                    }
                    if status == St::Accepted { self.deleted_keys.remove(&k); }
                    if status == St::Accepted && from_upsert {
                        if let Some(entry) = self.model.held.get_mut(&k) { entry.last_write_upsert = true; }
                    }
                    if status == St::Accepted {
                        let used = self.model.used();
                        if used > self.cfg.max_weight as i128 {
                            return Err(Failure::new("C01", "C01/accepted-put-over-limit", format!("after the accepted {} the held keys weigh {} > limit {}: the put was accepted although not enough space resulted", what, used, self.cfg.max_weight)).with_also(vec!["C06".to_string()]));
                        }
                    }
                }
                Pending::Delete { k } => {
                    let expected = if self.model.held.contains_key(&k) {
                        self.model.remove(k);
                        self.deleted_keys.insert(k);
                        self.stats.deletes_accepted += 1;
                        St::Accepted
                    } else {
                        self.stats.deletes_rejected += 1;
                        St::RejMissing
                    };
                    ensure!(expected == status, "C04", if expected == St::Accepted { "C04/delete-held/status" } else { "C04/delete-absent/status" }, "{} was acknowledged {:?}, expected {:?}", what, status, expected);
                }
                Pending::UpdateWeight { k, incarnation, weight, explicit, .. } => {
                    ensure!(status == St::Accepted, "C08", "C08/in-place/status", "{} was acknowledged {:?}, expected Accepted", what, status);
                    let same = self.model.held.get(&k).map(|entry| entry.incarnation == incarnation).unwrap_or(false);
                    if same {
                        self.model.set_weight(k, weight);
                        if !explicit { self.adopt_weight.insert(k); }
                        if let Some(entry) = self.model.held.get_mut(&k) { entry.explicit_weight = explicit; entry.explicit_weight_pending = explicit; }
                    }
                }
            }
        }
        Ok(())
    }

    fn apply_put(&mut self, k: u8, value: u64, weight: i64, ttl: Option<Duration>, events: &CommandEvents, estimates: Option<&Estimates>, observed: St) -> Check<St> {
        if self.model.held.contains_key(&k) {
            if weight > self.cfg.max_weight && observed == St::RejWeight {
                // both refusals apply (the key exists and the put is heavier than the cache): either answer is right
                self.model.stats.keys_rejected += 1;
                self.stats.rejected_weight += 1;
                return Ok(St::RejWeight);
            }
            let entry = &self.model.held[&k];
            if entry.soft_deleted && observed != St::RejExists {
                // the key reads as absent (deleted, the Delete command still queued behind this put): an implementation may
                // admit the put; the deleted incarnation must then be released (checked by the accounting comparison)
                self.model.remove(k);
            } else if !entry.soft_deleted && self.model.expired(entry) {
                // the key reads as absent (past its time-to-live, not yet swept): C07 says its fate is decided by admission alone
                if observed == St::RejExists {
                    self.soft(Failure::new("C07", "C07/put/expired-unswept", format!("put(k={}) of a key past its time-to-live (not yet swept, reads as absent) was refused with KeyAlreadyExists by the worker", k)))?;
                    self.stats.rejected_exists_at_worker += 1;
                    return Ok(St::RejExists);
                }
                // a conforming implementation replaces the dead incarnation: account for its removal, then admit normally
                self.model.remove(k);
            } else {
                self.stats.rejected_exists_at_worker += 1;
                return Ok(St::RejExists);
            }
        }
        if false {
        }
        let limit = self.cfg.max_weight;
        let id = events.begin.map(|(id, _, _, _)| id).unwrap_or(0);
        if let Some((_, begin_weight, max_weight, space_left)) = events.begin {
            ensure!(begin_weight == weight, "C06", "C06/trace/weight", "admission saw weight {} for a put of weight {}", begin_weight, weight);
            ensure!(max_weight == limit, "C06", "C06/trace/limit", "admission uses limit {} but the cache was configured with {}", max_weight, limit);
            if space_left as i128 != self.model.free() && !self.accounting_broken {
                self.soft(Failure::new("C05", "C05/free-space-mismatch", format!("admission saw {} free but the held keys leave {} free", space_left, self.model.free())))?;
                self.accounting_broken = true;
            }
        }
        if self.accounting_broken {
            // the weight accounting of the cache has already been found inconsistent (noted for the end of the case): admission
            // can no longer be predicted from the model; follow what was observed so that later behaviour can still be judged
            for step in &events.steps {
                if let Event::AdmissionStep { victim: Some(victim), evicted: true, .. } = step {
                    if let Some(key) = self.model.key_of_id(victim.id) { self.model.remove(key); self.stats.evictions += 1; }
                }
            }
            if observed == St::Accepted {
                let deadline = ttl.map(|ttl| deadline_of(self.model.now, ttl));
                self.model.insert(k, value, weight, deadline, id);
                self.stats.accepted_puts += 1;
            } else if observed == St::RejSpace || observed == St::RejWeight {
                self.model.stats.keys_rejected += 1;
            }
            return Ok(observed);
        }
        let evicting: Vec<&Event> = events.steps.iter().filter(|step| matches!(step, Event::AdmissionStep { evicted: true, .. })).collect();
        if weight > limit {
            ensure!(evicting.is_empty(), "C06", "C06/over-weight-evicted", "a put heavier than the cache ({} > {}) evicted keys", weight, limit);
            self.model.stats.keys_rejected += 1;
            self.stats.rejected_weight += 1;
            return Ok(St::RejWeight);
        }
        let deadline = ttl.map(|ttl| deadline_of(self.model.now, ttl));
        if weight as i128 <= self.model.free() {
            ensure!(evicting.is_empty(), "C06", "C06/fits-but-evicted", "a put of weight {} that fits in the free space {} evicted {} keys", weight, self.model.free(), evicting.len());
            self.model.insert(k, value, weight, deadline, id);
            if self.model.held[&k].incarnation >= 2 { self.stats.reincarnations += 1; }
            self.stats.accepted_puts += 1;
            return Ok(St::Accepted);
        }
        // eviction needed: validate every step
        let mut victims = 0;
        let mut stopped = false;
        for step in &events.steps {
            let Event::AdmissionStep { incoming_estimate, space_available, victim, rest_of_sample, evicted, .. } = step else { continue };
            ensure!(!stopped, "C06", "C06/continued-after-colder-reject", "eviction continued after the incoming key lost against a hotter victim");
            ensure!(*space_available as i128 == self.model.free(), "C06", "C06/step/space", "eviction step saw {} free, the held keys leave {}", space_available, self.model.free());
            ensure!((*space_available as i128) < weight as i128, "C06", "C06/evicted-after-space-sufficed", "an eviction step ran although {} free >= weight {}", space_available, weight);
            if let Some(estimates) = estimates {
                ensure!(*incoming_estimate == estimates.incoming, "C06", "C06/incoming-estimate", "admission used estimate {} for the incoming key, the sketch says {}", incoming_estimate, estimates.incoming);
            }
            let Some(victim) = victim else {
                ensure!(self.model.held.is_empty(), "C06", "C06/empty-sample", "the eviction sample was empty although {} keys are charged", self.model.held.len());
                stopped = true;
                continue;
            };
            let mut sample = vec![victim.clone()];
            sample.extend(rest_of_sample.iter().cloned());
            let mut ids = BTreeSet::new();
            let ids_known = self.model.held.values().all(|entry| entry.id != 0);
            for sampled in &sample {
                ensure!(ids.insert(sampled.id), "C06", "C06/sample/duplicate", "the eviction sample contains id {} twice: {:?}", sampled.id, sample);
                if ids_known {
                    let key = self.model.key_of_id(sampled.id);
                    ensure!(key.is_some(), "C06", "C06/sample/not-charged", "the eviction sample contains id {} which is not a held key: {:?}", sampled.id, sample);
                    let entry = &self.model.held[&key.unwrap()];
                    ensure!(entry.weight == sampled.weight, "C06", "C06/sample/weight", "sampled id {} has weight {} but is charged {}", sampled.id, sampled.weight, entry.weight);
                }
                if let Some(estimates) = estimates {
                    if let Some(estimate) = estimates.by_id.get(&sampled.id) {
                        ensure!(*estimate == sampled.estimate, "C06", "C06/sample/estimate", "sampled id {} carries estimate {} but the sketch says {}", sampled.id, sampled.estimate, estimate);
                    }
                }
            }
            ensure!(sample.len() <= self.model.held.len(), "C06", "C06/sample/too-large", "sample of {} from {} held keys", sample.len(), self.model.held.len());
            let minimum = sample.iter().map(|sampled| sampled.estimate).min().unwrap();
            ensure!(victim.estimate == minimum, "C06", "C06/victim-not-minimum", "the victim (id {}, estimate {}) is not the least frequently used of the sample {:?}", victim.id, victim.estimate, sample);
            let should_evict = victim.estimate <= *incoming_estimate;
            ensure!(*evicted == should_evict, "C06", if should_evict { "C06/tie-or-colder-not-evicted" } else { "C06/hotter-evicted" },
                "victim estimate {} vs incoming estimate {}: evicted = {}, expected {}", victim.estimate, incoming_estimate, evicted, should_evict);
            if sample.len() < 5 { self.stats.small_samples += 1; }
            if victim.estimate >= 15 || *incoming_estimate >= 15 { self.stats.saturated_estimates += 1; }
            if *evicted {
                if victim.estimate == *incoming_estimate { self.stats.tie_evictions += 1; }
                let key = if ids_known { self.model.key_of_id(victim.id) } else { None };
                match key {
                    Some(key) => { self.model.remove(key); }
                    None => return Err(Failure::new("C06", "C06/sample/not-charged", format!("victim id {} is not a held key", victim.id))),
                }
                victims += 1;
                self.stats.evictions += 1;
            } else {
                stopped = true;
            }
        }
        if victims >= 2 { self.stats.multi_victim_puts += 1; }
        if weight as i128 <= self.model.free() {
            ensure!(!stopped, "C06", "C06/status", "admission stopped evicting although space suffices");
            self.model.insert(k, value, weight, deadline, id);
            if self.model.held[&k].incarnation >= 2 { self.stats.reincarnations += 1; }
            self.stats.accepted_puts += 1;
            Ok(St::Accepted)
        } else {
            if observed == St::Accepted {
                // accepted although the evictions did not make enough room: the limit is exceeded (C01) and admission did not
                // follow its rule (C06)
                return Err(Failure::new("C01", "C01/accepted-put-over-limit", format!("put(k={}, w={}) was accepted after {} evictions although only {} are free of the limit {}: the total weight now exceeds the limit", k, weight, victims, self.model.free(), limit)).with_also(vec!["C06".to_string()]));
            }
            ensure!(stopped, "C06", "C06/gave-up-without-reason", "a put of weight {} was refused with {} free although the last sampled victim was not hotter and keys remain", weight, self.model.free());
            if victims >= 1 { self.stats.partial_evict_then_reject += 1; }
            self.model.stats.keys_rejected += 1;
            self.stats.rejected_space += 1;
            Ok(St::RejSpace)
        }
    }

    // -----------------------------------------------------------------------------------------
    // clock

    fn advance_to(&mut self, new_now: Duration) -> Check {
        let nanos = new_now.as_nanos();
        if nanos > (u64::MAX / 2) as u128 { self.stats.adjusted_ops += 1; return Ok(()); }
        self.model.now = new_now;
        self.clock.set(nanos as u64);
        self.stats.advances += 1;
        self.sweeper_pinned = false;
        self.release_sweeper();
        if self.cfg.tick_us > 100_000 { return Ok(()); }
        self.wait_sweep()?;
        // adopt which expired keys this sweep collected; unexpired keys must all still be there (checked by the snapshot comparison)
        let present: BTreeSet<u8> = self.cache.verif_snapshot().store.iter().map(|entry| entry.key as u8).collect();
        let expired: Vec<u8> = self.model.held.iter().filter(|(_, entry)| self.model.expired(entry) || entry.deadline == Some(self.model.now)).map(|(k, _)| *k).collect();
        let mut removed = 0;
        for k in expired {
            if !present.contains(&k) {
                if let Some(deadline) = self.model.held[&k].deadline { self.swept_deadline.insert(k, deadline); }
                self.model.remove(k);
                removed += 1;
            }
        }
        if removed > 0 {
            self.stats.swept_keys += removed;
            if self.model.held.values().any(|entry| entry.deadline.is_some()) { self.stats.sweeps_with_survivor += 1; }
            if self.ttl_changed_since_sweep { self.stats.sweep_after_ttl_change += 1; }
        }
        if self.ttl_changed_since_sweep && self.model.held.values().any(|entry| !self.model.expired(entry)) { self.stats.sweep_after_ttl_change += 1; }
        self.ttl_changed_since_sweep = false;
        Ok(())
    }

    fn resolve_advance(&mut self, sel: &AdvSel) -> Duration {
        let now = self.model.now;
        match sel {
            AdvSel::Nanos(n) => now + Duration::from_nanos(*n as u64),
            AdvSel::Millis(n) => now + Duration::from_millis(*n as u64),
            AdvSel::Secs(n) => now + Duration::from_secs(*n as u64),
            AdvSel::Days(n) => now + Duration::from_secs(*n as u64 * 86_400),
            AdvSel::Years(n) => now + Duration::from_secs(*n as u64 * 365 * 86_400),
            AdvSel::ToDeadline { k, delta } => {
                let target = self.model.held.get(k).and_then(|entry| entry.deadline).and_then(|deadline| {
                    if *delta < 0 { deadline.checked_sub(Duration::from_nanos(1)) } else { deadline.checked_add(Duration::from_nanos(*delta as u64)) }
                });
                match target {
                    Some(target) if target > now && target.as_nanos() < (u64::MAX / 2) as u128 => target,
                    _ => now + Duration::from_nanos(1),
                }
            }
        }
    }

    // -----------------------------------------------------------------------------------------
    // op interpreter

    fn issue_write(&mut self, op: &Op) -> Check<Option<PendingCmd>> {
        match op {
            Op::Put { k, w, ttl } => self.issue_put(*k, w, ttl),
            Op::Upsert { k, value, w, ttl } => self.issue_upsert(*k, *value, w, ttl),
            Op::Delete { k } => self.issue_delete(*k),
            _ => Ok(None),
        }
    }

    pub fn exec_op(&mut self, op: &Op) -> Check {
        self.stats.ops_executed += 1;
        if self.boundary_at.is_some() { self.stats.ops_after_boundary += 1; }
        match op {
            Op::Put { k, w, ttl } => {
                let key = *k;
                // will this put need eviction? then read the estimates the decision must be based on
                let weight = match w { Some(sel) => sel.resolve(self.cfg.max_weight), None => self.cfg.weight_fn(key as u64, self.peek_token(key), ttl.is_some()) };
                let needs_eviction = !self.model.held.contains_key(k) && weight <= self.cfg.max_weight && weight as i128 > self.model.free();
                let estimates = if needs_eviction { Some(self.pre_read_estimates(key)?) } else { None };
                if let Some(pending) = self.issue_put(*k, w, ttl)? {
                    self.complete_pending(vec![pending], estimates)?;
                }
                self.quiescent_checks("C07")
            }
            Op::Upsert { k, value, w, ttl } => {
                let absent = !self.model.held.contains_key(k);
                let estimates = if absent { Some(self.pre_read_estimates(*k)?) } else { None };
                if let Some(pending) = self.issue_upsert(*k, *value, w, ttl)? {
                    self.complete_pending(vec![pending], estimates)?;
                }
                self.quiescent_checks("C08")
            }
            Op::Delete { k } => {
                let was_readable = self.model.readable(*k);
                let before = self.model.held.get(k).cloned();
                if let Some(pending) = self.issue_delete(*k)? {
                    if was_readable {
                        // C04: hidden as soon as delete() returned (here the acknowledgement may or may not be complete)
                        let key = *k as u64;
                        let got = self.call("get", |cache| cache.get(&key))?;
                        self.settle_read(ReadKind::Get, *k, got)?;
                    }
                    self.complete_pending(vec![pending], None)?;
                }
                let _ = before;
                self.quiescent_checks("C04")
            }
            Op::Read { kind, keys } => {
                self.exec_read(*kind, keys)?;
                self.quiescent_checks("C03")
            }
            Op::ReadAll { keys } => {
                for kind in READ_KINDS { self.exec_read(kind, keys)?; }
                self.quiescent_checks("C03")
            }
            Op::Touch { k, n } => {
                for _ in 0..*n { self.exec_read(ReadKind::Get, &[*k])?; }
                self.quiescent_checks("C03")
            }
            Op::Advance(sel) => {
                let target = self.resolve_advance(sel);
                self.advance_to(target)?;
                self.quiescent_checks("C10")
            }
            Op::SweepRotation => {
                let start = self.model.now;
                self.stats.rotations += 1;
                for _ in 0..self.cfg.shards {
                    let target = self.model.now + Duration::from_secs(1);
                    self.advance_to(target)?;
                    self.quiescent_checks("C10")?;
                }
                for (k, entry) in &self.model.held {
                    if self.cfg.tick_us > 100_000 { break; }
                    if let Some(deadline) = entry.deadline {
                        if deadline < start {
                            // also C07: such a key reads as absent yet refuses every put with KeyAlreadyExists, now for ever
                            return Err(Failure::new("C10", "C10/liveness/not-swept-after-rotation", format!("key {} (deadline {:?}) was already expired at {:?} and is still held after one sweep of every shard ({} shards)", k, deadline, start, self.cfg.shards)).with_also(vec!["C07".to_string()]));
                        }
                    }
                }
                Ok(())
            }
            Op::ExpiredWrite { k, past_ms, write, read_first } => {
                let usable = |model: &Model| model.held.get(k).and_then(|entry| if entry.soft_deleted { None } else { entry.deadline }).filter(|deadline| *deadline > model.now && deadline.as_nanos() < (u64::MAX / 4) as u128);
                if usable(&self.model).is_none() && !self.model.held.contains_key(k) {
                    self.exec_op(&Op::Put { k: *k, w: Some(WSel::Abs(7)), ttl: Some(TtlSel::Secs(2)) })?;
                }
                let Some(deadline) = usable(&self.model) else { return self.quiescent_checks("C10"); };
                if self.cfg.tick_us > 100_000 { return self.quiescent_checks("C10"); }
                self.hold_sweeper();
                let target = deadline + Duration::from_millis(1 + *past_ms as u64);
                self.model.now = target;
                self.clock.set(target.as_nanos() as u64);
                self.stats.advances += 1;
                self.stats.expired_unswept_writes += 1;
                if *read_first { for kind in READ_KINDS { self.exec_read(kind, &[*k])?; } }
                let aim = |op: Op| match op { Op::Put { w, ttl, .. } => Op::Put { k: *k, w, ttl }, Op::Upsert { value, w, ttl, .. } => Op::Upsert { k: *k, value, w, ttl }, Op::Read { kind, keys } => Op::Read { kind, keys: keys.iter().map(|_| *k).collect() }, _ => Op::Delete { k: *k } };
                let retargeted = match (**write).clone() { Op::Stall { burst } => Op::Stall { burst: burst.into_iter().map(aim).collect() }, other => aim(other) };
                self.sweeper_pinned = self.sweeper_held;
                let written = self.exec_op(&retargeted);
                self.sweeper_pinned = false;
                written?;
                self.exec_op(&Op::SweepRotation)?;
                for kind in READ_KINDS { self.exec_read(kind, &[*k])?; }
                self.quiescent_checks("C10")
            }
            Op::DeadlineWalk { k } => {
                let deadline = self.model.held.get(k).and_then(|entry| entry.deadline);
                match deadline {
                    Some(deadline) if deadline > self.model.now + Duration::from_nanos(1) && deadline.as_nanos() < (u64::MAX / 2 - 10) as u128 => {
                        for offset in 0..3u64 {
                            let target = deadline - Duration::from_nanos(1) + Duration::from_nanos(offset);
                            if offset == 1 && self.cfg.tick_us <= 100_000 {
                                // exactly on the deadline, sweeper parked, clock frozen: reads may answer either way (adopted),
                                // but the cache must agree with itself: if it still serves the key, a put must be refused
                                self.hold_sweeper();
                                self.model.now = target;
                                self.clock.set(target.as_nanos() as u64);
                                self.stats.advances += 1;
                                for kind in READ_KINDS { self.exec_read(kind, &[*k])?; }
                                self.probe_put_on_deadline(*k)?;
                                continue;
                            }
                            self.advance_to(target)?;
                            self.quiescent_checks("C10")?;
                            for kind in READ_KINDS { self.exec_read(kind, &[*k])?; }
                            self.quiescent_checks("C09")?;
                        }
                        Ok(())
                    }
                    _ => {
                        self.exec_read(ReadKind::Get, &[*k])?;
                        self.quiescent_checks("C03")
                    }
                }
            }
            Op::IterSteps { map, keys, between } => {
                let cache = self.cache.clone();
                let keys64: Vec<u64> = keys.iter().map(|k| *k as u64).collect();
                let refs: Vec<&u64> = keys64.iter().collect();
                let kind = if *map { ReadKind::MultiGetMapIter } else { ReadKind::MultiGetIter };
                let mut plain = if *map { None } else { Some(cache.multi_get_iterator(refs.clone())) };
                let mut mapped = if *map { Some(cache.multi_get_map_iterator(refs, |value| value ^ 1)) } else { None };
                for (index, k) in keys.iter().enumerate() {
                    let got = match catch_unwind(AssertUnwindSafe(|| match (&mut plain, &mut mapped) { (Some(iterator), _) => iterator.next(), (_, Some(iterator)) => iterator.next().map(|value| value.map(|value| value ^ 1)), _ => None })) {
                        Ok(got) => got,
                        Err(_) => return Err(Failure::new("C17", "C17/caller-panic", "multi_get iterator next() panicked".to_string())),
                    };
                    let Some(got) = got else { return Err(Failure::new("C02", "C02/iterator/shape", format!("{:?} over {:?} ended after {} items", kind, keys, index))); };
                    self.settle_read(kind, *k, got)?;
                    self.stats.iterator_steps_after_write += (index > 0) as u32;
                    if let Some(op) = between.get(index) {
                        if op.is_write() && index + 1 < keys.len() {
                            // aim the write at a key the iterator has not yielded yet
                            let target = keys[index + 1];
                            let op = match op.clone() { Op::Put { w, ttl, .. } => Op::Put { k: target, w, ttl }, Op::Upsert { value, w, ttl, .. } => Op::Upsert { k: target, value, w, ttl }, Op::Delete { .. } => Op::Delete { k: target }, other => other };
                            self.exec_op(&op)?;
                        }
                    }
                }
                self.quiescent_checks("C03")
            }
            Op::JumpDuring { after_reads, by_ms, op } => {
                if !matches!(**op, Op::Put { .. } | Op::Upsert { .. }) || self.cfg.tick_us > 100_000 || self.cfg.noise_readers > 0 { return self.exec_op(op); }
                // only the caller and the worker read the clock while the jump is armed
                self.hold_sweeper();
                let old = self.model.now;
                let new = old + Duration::from_millis(*by_ms as u64);
                if new.as_nanos() >= (u64::MAX / 2) as u128 { self.release_sweeper(); return self.exec_op(op); }
                self.jump = Some((old, new));
                self.clock.arm_jump(*after_reads as u64, *by_ms as u64 * 1_000_000);
                let result = self.exec_jump_inner(op);
                let happened = self.clock.disarm();
                if result.is_ok() {
                    // deadlines computed inside the operation may be based on the time after the jump: adopt those
                    let (old_time, new_time) = self.jump.unwrap();
                    for (k, entry) in self.model.held.iter_mut() {
                        if let (Some(expected), Some((_, Some(actual), _))) = (entry.deadline, self.cache.verif_peek(&(*k as u64)).map(|(id, expiry, deleted)| (id, expiry.map(since_epoch), deleted))) {
                            if actual != expected && actual == expected + (new_time - old_time) { entry.deadline = Some(actual); }
                        }
                    }
                }
                self.jump = None;
                result?;
                self.stats.jumps_inside_operations += happened as u32;
                // the model catches up with the clock; a complete sweep at the new time, then the usual reconciliation
                let now = Duration::from_nanos(self.clock.get());
                self.advance_to(now)?;
                self.quiescent_checks("C10")
            }
            Op::Fill { first, count, w, ttl } => {
                for offset in 0..*count {
                    let k = 100u8.saturating_add(((*first as u16 + offset as u16) % 128) as u8);
                    if self.model.held.contains_key(&k) { continue; }
                    self.exec_op(&Op::Put { k, w: Some(WSel::Abs(*w as i64)), ttl: ttl.clone() })?;
                }
                Ok(())
            }
            Op::StepWorker => Ok(()),
            Op::Stall { burst } => self.exec_stall(burst),
        }
    }

    /// The wrapped write of a `JumpDuring`: executed like a plain put / upsert, but without the quiescent checks (the model
    /// time is brought up to date first, by the caller).
    fn exec_jump_inner(&mut self, op: &Op) -> Check {
        match op {
            Op::Put { k, w, ttl } => { if let Some(pending) = self.issue_put(*k, w, ttl)? { self.complete_pending(vec![pending], None)?; } Ok(()) }
            Op::Upsert { k, value, w, ttl } => { if let Some(pending) = self.issue_upsert(*k, *value, w, ttl)? { self.complete_pending(vec![pending], None)?; } Ok(()) }
            _ => Ok(()),
        }
    }

    fn exec_stall(&mut self, burst: &[Op]) -> Check {
        if self.in_stall { return Ok(()); }
        self.stats.stall_windows += 1;
        self.inst.worker_gate.close();
        self.in_stall = true;
        let result = self.exec_stall_inner(burst);
        self.inst.worker_gate.open();
        self.in_stall = false;
        result?;
        self.quiescent_checks("C05")
    }

    fn exec_stall_inner(&mut self, burst: &[Op]) -> Check {
        let mut keys_written: BTreeMap<u8, u32> = BTreeMap::new();
        for op in burst {
            if op.is_write() {
                if self.pending.len() >= self.cfg.cmd_buf { self.stats.adjusted_ops += 1; continue; }
                if let Some(pending) = self.issue_write(op)? {
                    *keys_written.entry(op.key().unwrap()).or_insert(0) += 1;
                    self.pending.push(pending);
                }
            } else if let Op::Read { kind, keys } = op {
                self.exec_read(*kind, keys)?;
            } else if matches!(op, Op::StepWorker) && !self.pending.is_empty() {
                // the worker (parked after dequeuing the oldest command) executes exactly that command, then parks again
                let oldest = self.pending.remove(0);
                self.inst.worker_gate.step();
                self.complete_pending(vec![oldest], None)?;
                self.stats.worker_steps += 1;
            }
            // C01 at an instant where commands are still queued
            let used = self.cache.total_weight_used();
            ensure!(used >= 0 && used <= self.cfg.max_weight, "C01", "C01/stall/out-of-bounds", "total_weight_used() = {} outside [0, {}] while {} commands are queued", used, self.cfg.max_weight, self.pending.len());
            self.stats.observations_in_stall += 1;
        }
        if keys_written.values().any(|count| *count >= 2) { self.stats.same_key_bursts += 1; }
        self.inst.worker_gate.open();
        let pending = std::mem::take(&mut self.pending);
        self.complete_pending(pending, None)?;
        let used = self.cache.total_weight_used();
        if used < 0 || used > self.cfg.max_weight {
            let failure = Failure::new("C01", "C01/release/out-of-bounds", format!("total_weight_used() = {} outside [0, {}] right after the queued burst was applied", used, self.cfg.max_weight));
            if self.policy.allow_over_limit_upsert && self.policy.note_over_limit && used as i128 == self.model.used() && used > 0 { if self.deferred.is_none() { self.deferred = Some(failure); } } else { return Err(failure); }
        }
        Ok(())
    }

    /// Liveness probe (C17) and drain (C05 public cross-check), then shutdown.
    /// Puts the dedicated noise keys, saturates their estimates, then starts the background readers. From here on the
    /// counters of the cache are no longer predictable (the readers' lookups are not modelled): counter checks stop.
    pub fn start_noise(&mut self) -> Check {
        if self.cfg.noise_readers == 0 { return Ok(()); }
        for k in NOISE_KEYS {
            self.exec_op(&Op::Put { k, w: Some(WSel::Abs(1)), ttl: None })?;
        }
        // saturate the estimates of the noise keys directly in the sketch (reads could be dropped on the way): from now on
        // no amount of noise traffic changes any estimate
        for k in NOISE_KEYS {
            let hash = self.cache.verif_hash_of(&(k as u64));
            for _ in 0..4 {
                if self.cache.verif_estimate(hash) >= 16 { break; }
                self.cache.verif_increment_access(vec![hash; 20]);
            }
        }
        self.stats_broken = true;
        self.noise = Some(Noise::start(&self.cache, &self.inst, self.cfg.noise_readers));
        Ok(())
    }

    pub fn stop_noise(&mut self) { if let Some(noise) = self.noise.take() { noise.stop(); } }

    pub fn finish(&mut self, drain: bool) -> Check {
        self.stop_noise();
        // command worker alive: a delete of a key nobody wrote completes
        let pending = self.issue_delete(250)?.unwrap();
        self.complete_pending(vec![pending], None)?;
        // consumer alive: hand over at least one buffer and see it applied
        if let Some((k, _)) = self.model.held.iter().find(|(k, _)| self.model.readable(**k)).map(|(k, entry)| (*k, entry.clone())) {
            for _ in 0..(2 * self.cfg.buf + 1) { self.exec_read(ReadKind::Get, &[k])?; }
            self.wait_sketch_quiescent()?;
        }
        // sweeper alive
        if self.cfg.tick_us <= 100_000 { self.wait_sweep()?; }
        self.quiescent_checks("C17")?;
        if drain {
            let keys: Vec<u8> = self.model.held.keys().copied().collect();
            for k in keys {
                let pending = self.issue_delete(k)?.unwrap();
                self.complete_pending(vec![pending], None)?;
            }
            self.quiescent_checks("C04")?;
            let used = self.cache.total_weight_used();
            ensure!(used == 0, "C05", "C05/drain/nonzero", "after deleting every key total_weight_used() = {}", used);
        }
        Ok(())
    }

    pub fn shutdown(&mut self) {
        self.stop_noise();
        self.inst.worker_gate.open();
        self.inst.sweeper_gate.open();
        let _ = catch_unwind(AssertUnwindSafe(|| self.cache.shutdown()));
        if let Some(prelude_cache) = self.prelude_cache.take() { let _ = catch_unwind(AssertUnwindSafe(|| prelude_cache.shutdown())); }
        verif::install(None);
    }

    /// C13, sequential part: after shutdown() returned every write entry point returns Err and every read variant
    /// returns absent / empty; a second shutdown() returns as well.
    pub fn shutdown_and_check(&mut self) -> Check {
        self.inst.worker_gate.open();
        self.inst.sweeper_gate.open();
        self.call("shutdown", |cache| cache.shutdown())?;
        self.call("shutdown (second call)", |cache| cache.shutdown())?;
        let keys: Vec<u64> = self.written_keys.iter().map(|k| *k as u64).chain(std::iter::once(200)).collect();
        for key in keys {
            let results: Vec<(&str, bool)> = vec![
                ("put", self.call("put", |cache| cache.put(key, 1).is_err())?),
                ("put_with_weight", self.call("put_with_weight", |cache| cache.put_with_weight(key, 1, 1).is_err())?),
                ("put_with_ttl", self.call("put_with_ttl", |cache| cache.put_with_ttl(key, 1, Duration::from_secs(1)).is_err())?),
                ("put_with_weight_and_ttl", self.call("put_with_weight_and_ttl", |cache| cache.put_with_weight_and_ttl(key, 1, 1, Duration::from_secs(1)).is_err())?),
                ("put_or_update", self.call("put_or_update", |cache| cache.put_or_update(PutOrUpdateRequestBuilder::new(key).value(1).build()).is_err())?),
                ("delete", self.call("delete", |cache| cache.delete(key).is_err())?),
            ];
            for (name, is_err) in results {
                ensure!(is_err, "C13", "C13/seq/write-accepted-after-shutdown", "{}({}) returned Ok after shutdown() had returned", name, key);
            }
            let reads: Vec<(&str, bool)> = vec![
                ("get", self.call("get", |cache| cache.get(&key).is_none())?),
                ("get_ref", self.call("get_ref", |cache| cache.get_ref(&key).is_none())?),
                ("map_get", self.call("map_get", |cache| cache.map_get(&key, |value| value).is_none())?),
                ("map_get_ref", self.call("map_get_ref", |cache| cache.map_get_ref(&key, |stored| stored.value()).is_none())?),
                ("multi_get", self.call("multi_get", |cache| cache.multi_get(vec![&key]).values().all(|value| value.is_none()))?),
                ("multi_get_iterator", self.call("multi_get_iterator", |cache| cache.multi_get_iterator(vec![&key]).all(|value| value.is_none()))?),
                ("multi_get_map_iterator", self.call("multi_get_map_iterator", |cache| cache.multi_get_map_iterator(vec![&key], |value| value).all(|value| value.is_none()))?),
            ];
            for (name, absent) in reads {
                ensure!(absent, "C13", "C13/seq/read-after-shutdown", "{}({}) returned a value after shutdown() had returned", name, key);
            }
        }
        verif::install(None);
        Ok(())
    }
}

#[derive(Clone, Debug)]
pub struct SeqOutcome {
    pub stats: CaseStats,
    pub failure: Option<Failure>,
}

/// Runs one sequential case from scratch. Pure function of (tree, case, policy) up to thread timing that the
/// harness synchronises away (sweep waits, consumer quiescence).
pub fn run_seq_case(case: &SeqCase, policy: &Policy) -> SeqOutcome { run_seq_case_focus(case, policy, "") }

/// `focus`: the property under check; oracle failures of other properties that leave the model valid are deferred.
pub fn run_seq_case_focus(case: &SeqCase, policy: &Policy, focus: &str) -> SeqOutcome {
    // the case runs on a thread of its own: an API call that never returns (a caller blocked for ever inside the cache)
    // must not hang the campaign; it is reported as a stall and the thread is left behind
    let (sender, receiver) = std::sync::mpsc::channel();
    let progress = Arc::new(std::sync::atomic::AtomicU64::new(0));
    let (case_owned, policy_owned, focus_owned, progress_thread) = (case.clone(), policy.clone(), focus.to_string(), progress.clone());
    std::thread::spawn(move || {
        mark_harness_thread();
        let outcome = match catch_unwind(AssertUnwindSafe(|| run_seq_case_inner(&case_owned, &policy_owned, &focus_owned, &progress_thread))) {
            Ok(outcome) => outcome,
            Err(_) => {
                verif::install(None);
                SeqOutcome { stats: CaseStats::default(), failure: Some(Failure::new("INCONCLUSIVE", "harness/panic", "the harness itself panicked while running this case (harness defect, not a verdict about the cache)".to_string())) }
            }
        };
        let _ = sender.send(outcome);
    });
    let mut last = 0;
    let mut idle = std::time::Instant::now();
    loop {
        match receiver.recv_timeout(Duration::from_millis(250)) {
            Ok(outcome) => return outcome,
            Err(std::sync::mpsc::RecvTimeoutError::Disconnected) => return SeqOutcome { stats: CaseStats::default(), failure: Some(Failure::new("INCONCLUSIVE", "harness/panic", "the case thread ended without a result".to_string())) },
            Err(std::sync::mpsc::RecvTimeoutError::Timeout) => {
                let now = progress.load(Ordering::Acquire);
                if now != last { last = now; idle = std::time::Instant::now(); }
                if idle.elapsed() > WATCHDOG + Duration::from_secs(10) {
                    return SeqOutcome { stats: CaseStats::default(), failure: Some(Failure::new("STALL", "stall/caller-blocked", format!("operation #{} of the history did not return within {:?}: the calling thread is blocked inside the cache", now, WATCHDOG + Duration::from_secs(10)))) };
                }
            }
        }
    }
}

fn run_seq_case_inner(case: &SeqCase, policy: &Policy, focus: &str, progress: &std::sync::atomic::AtomicU64) -> SeqOutcome {
    let mut exec = Exec::new(&case.cfg, policy);
    exec.focus = focus.to_string();
    let mut failure = None;
    if let Err(mut error) = exec.start_noise() { error.at_op = 0; failure = Some(error); }
    for (index, op) in case.ops.iter().enumerate() {
        if failure.is_some() { break; }
        progress.store(index as u64 + 1, Ordering::Release);
        exec.op_index = index;
        if let Err(mut error) = exec.exec_op(op) {
            error.at_op = index;
            failure = Some(error);
            break;
        }
    }
    if failure.is_none() {
        exec.op_index = case.ops.len();
        if let Err(mut error) = exec.finish(true) {
            error.at_op = case.ops.len();
            failure = Some(error);
        }
    }
    if failure.is_none() { failure = exec.deferred.take(); }
    if failure.is_none() && (focus == "C13" || focus.is_empty()) {
        // C13, sequential part (no drain before: keys are still held when shutdown is called)
        if let Err(mut error) = exec.shutdown_and_check() { error.at_op = case.ops.len() + 1; failure = Some(error); }
    }
    exec.shutdown();
    let stats = exec.stats.clone();
    drop(exec);
    SeqOutcome { stats, failure }
}
