//! SEQ engine: one harness thread drives a generated history against a real `CacheD<u64, u64>` and the
//! reference model, comparing results after every step (DESIGN.md 3.1, appendix A).

use std::collections::{BTreeMap, BTreeSet, HashMap};
use std::panic::{catch_unwind, AssertUnwindSafe};
use std::sync::atomic::Ordering;
use std::sync::Arc;
use std::time::Duration;

use tinylfu_cached::cache::cached::CacheD;
use tinylfu_cached::cache::command::acknowledgement::CommandAcknowledgement;
use tinylfu_cached::cache::command::command_executor::CommandSendResult;
use tinylfu_cached::cache::config::ConfigBuilder;
use tinylfu_cached::cache::put_or_update::PutOrUpdateRequestBuilder;
use tinylfu_cached::cache::stats::StatsType;
use tinylfu_cached::cache::verif::{self, Event, Instance, Snapshot};

use crate::base::*;
use crate::case::*;
use crate::ensure;
use crate::model::*;

pub const TTL_ENTRY: i64 = 24;

pub fn deadline_of(now: Duration, ttl: Duration) -> Duration { now.checked_add(ttl).unwrap_or(Duration::MAX) }

pub fn build_cache(cfg: &Cfg, clock: &HClock, inst: &Arc<Instance>) -> CacheD<u64, u64> {
    verif::install(Some(inst.clone()));
    let mut builder = ConfigBuilder::new(cfg.counters, cfg.capacity, cfg.max_weight)
        .shards(cfg.shards)
        .command_buffer_size(cfg.cmd_buf)
        .access_pool_size(cfg.pool)
        .access_buffer_size(cfg.buf)
        .ttl_tick_duration(Duration::from_micros(cfg.tick_us))
        .clock(Box::new(clock.clone()));
    match cfg.hash {
        HashMode::Identity => builder = builder.key_hash_fn(Box::new(|key: &u64| *key)),
        HashMode::Constant => builder = builder.key_hash_fn(Box::new(|_key: &u64| 7)),
        HashMode::Mod2 => builder = builder.key_hash_fn(Box::new(|key: &u64| *key % 2)),
        HashMode::Default => {}
    }
    if let WeightMode::Table(table) = &cfg.weight_mode {
        let table = table.clone();
        builder = builder.weight_calculation_fn(Box::new(move |key: &u64, _value: &u64, ttl: bool| {
            table[(*key as usize) % table.len()] + if ttl { TTL_ENTRY } else { 0 }
        }));
    }
    if let WeightMode::ByValue(table) = &cfg.weight_mode {
        let table = table.clone();
        builder = builder.weight_calculation_fn(Box::new(move |key: &u64, value: &u64, ttl: bool| {
            table[((*key + (*value & 0xffff)) as usize) % table.len()] + if ttl { TTL_ENTRY } else { 0 }
        }));
    }
    CacheD::new(builder.build())
}

/// Builds and uses another cache on the calling thread (see `Prelude`). Returns it if it is to stay alive.
fn run_prelude(prelude: &Prelude) -> Option<Arc<CacheD<u64, u64>>> {
    let inst = Instance::new();
    let clock = HClock::new(BASE_SECS * 1_000_000_000);
    let cfg = Cfg { counters: prelude.counters, capacity: 64, max_weight: 1_000_000, shards: prelude.shards, cmd_buf: prelude.cmd_buf, pool: prelude.pool, buf: prelude.buf, tick_us: 1000,
        hash: HashMode::Default, weight_mode: WeightMode::Default, start_ns: 0, noise_readers: 0, prelude: None };
    let cache = Arc::new(build_cache(&cfg, &clock, &inst));
    let _ = catch_unwind(AssertUnwindSafe(|| {
        for key in 0..prelude.keys as u64 {
            let sent = if key % 3 == 2 { cache.put_with_ttl(1000 + key, key, Duration::from_secs(3600)) } else { cache.put_with_weight(1000 + key, key, 5 + key as i64) };
            if let Ok(ack) = sent { let _ = await_ack(&ack, &inst); }
        }
        for read in 0..prelude.reads as u64 {
            let _ = cache.get(&(1000 + read % (prelude.keys as u64 + 1)));
        }
        if let Ok(ack) = cache.delete(1000) { let _ = await_ack(&ack, &inst); }
        let _ = cache.total_weight_used();
    }));
    if prelude.keep_alive { Some(cache) } else { let _ = catch_unwind(AssertUnwindSafe(|| cache.shutdown())); None }
}

pub const NOISE_KEYS: [u8; 3] = [240, 241, 242];

/// Background readers of dedicated keys (C06 under contention): they keep the pool, the hand-over channel and the
/// sketch's lock busy while the command worker takes admission decisions.
struct Noise {
    stop: Arc<std::sync::atomic::AtomicBool>,
    paused: Arc<std::sync::atomic::AtomicBool>,
    idle: Arc<std::sync::atomic::AtomicUsize>,
    handles: Vec<std::thread::JoinHandle<()>>,
}

impl Noise {
    fn start(cache: &Arc<CacheD<u64, u64>>, inst: &Arc<Instance>, threads: u8) -> Noise {
        let stop = Arc::new(std::sync::atomic::AtomicBool::new(false));
        let paused = Arc::new(std::sync::atomic::AtomicBool::new(false));
        let idle = Arc::new(std::sync::atomic::AtomicUsize::new(0));
        let mut handles = Vec::new();
        for thread in 0..threads {
            let (cache, inst, stop, paused, idle) = (cache.clone(), inst.clone(), stop.clone(), paused.clone(), idle.clone());
            handles.push(std::thread::spawn(move || {
                verif::install(Some(inst));
                let mut turn = thread as usize;
                while !stop.load(Ordering::Acquire) {
                    if paused.load(Ordering::Acquire) {
                        idle.fetch_add(1, Ordering::AcqRel);
                        while paused.load(Ordering::Acquire) && !stop.load(Ordering::Acquire) { std::thread::yield_now(); }
                        idle.fetch_sub(1, Ordering::AcqRel);
                        continue;
                    }
                    turn = (turn + 1) % NOISE_KEYS.len();
                    let _ = cache.get(&(NOISE_KEYS[turn] as u64));
                }
                verif::install(None);
            }));
        }
        Noise { stop, paused, idle, handles }
    }

    fn pause(&self) {
        self.paused.store(true, Ordering::Release);
        while self.idle.load(Ordering::Acquire) < self.handles.len() { std::thread::yield_now(); }
    }

    fn resume(&self) { self.paused.store(false, Ordering::Release); }

    fn stop(self) {
        self.stop.store(true, Ordering::Release);
        for handle in self.handles { let _ = handle.join(); }
    }
}

struct PendingCmd {
    ack: Arc<CommandAcknowledgement>,
    cmd: Pending,
}

pub struct Exec {
    /// the sweeper stays parked across the quiescent checks of the next op (ExpiredWrite); any clock advance lifts it
    sweeper_pinned: bool,
    /// the cache of the prelude, if it stays alive beside the cache under test
    prelude_cache: Option<Arc<CacheD<u64, u64>>>,
    pub cfg: Cfg,
    pub policy: Policy,
    pub cache: Arc<CacheD<u64, u64>>,
    noise: Option<Noise>,
    pub inst: Arc<Instance>,
    pub clock: HClock,
    pub model: Model,
    pub stats: CaseStats,
    token: u64,
    op_index: usize,
    in_stall: bool,
    pending: Vec<PendingCmd>,
    keep_alive: Vec<Arc<CommandAcknowledgement>>,
    written_keys: BTreeSet<u8>,
    ttl_keys_ever: BTreeSet<u8>,
    upserts_per_key: BTreeMap<u8, u32>,
    shapes_seen: BTreeSet<(u8, u8)>,
    boundary_at: Option<u32>,
    ttl_changed_since_sweep: bool,
    last_sketch_increments: u64,
    lookups: u64,
    adopt_weight: BTreeSet<u8>,
    sweeper_held: bool,
    /// (old time, new time) while an operation runs with an armed clock jump: deadlines computed in it may use either
    jump: Option<(Duration, Duration)>,
    /// keys whose delete was acknowledged Accepted and that were not put again since
    deleted_keys: BTreeSet<u8>,
    /// first expiry-index inconsistency seen (reported at the end of the case)
    pub deferred: Option<Failure>,
    /// report expiry-index inconsistencies at once (check of C10)
    pub strict_index: bool,
    /// property under check (empty: every oracle failure ends the case)
    pub focus: String,
    pub(crate) accounting_broken: bool,
    pub(crate) stats_broken: bool,
    weight_identity_broken: bool,
    /// deadline of keys the sweeper removed (for the near-deadline statistics only)
    swept_deadline: BTreeMap<u8, Duration>,
    /// whether the physical-state comparison (hooks) is on
    pub deep: bool,
}

fn is_boundary_weight(weight: i64, limit: i64) -> bool {
    weight <= 2 || (weight - 24).abs() <= 1 || (weight as i128 - limit as i128).abs() <= 2 || weight >= i64::MAX - 2
}

impl Exec {
    pub fn new(cfg: &Cfg, policy: &Policy) -> Exec {
        let inst = Instance::new();
        inst.enable_trace(true);
        let start = BASE_SECS * 1_000_000_000 + cfg.start_ns;
        let clock = HClock::new(start);
        let prelude_cache = cfg.prelude.as_ref().and_then(run_prelude);
        let cache = Arc::new(build_cache(cfg, &clock, &inst));
        Exec {
            sweeper_pinned: false,
            prelude_cache,
            noise: None,
            cfg: cfg.clone(),
            policy: policy.clone(),
            cache,
            inst,
            clock,
            model: Model::new(cfg.max_weight, cfg.shards, Duration::from_nanos(start)),
            stats: CaseStats { all_hit: true, all_miss: true, ..CaseStats::default() },
            token: 0,
            op_index: 0,
            in_stall: false,
            pending: Vec::new(),
            keep_alive: Vec::new(),
            written_keys: BTreeSet::new(),
            ttl_keys_ever: BTreeSet::new(),
            upserts_per_key: BTreeMap::new(),
            shapes_seen: BTreeSet::new(),
            boundary_at: None,
            ttl_changed_since_sweep: false,
            last_sketch_increments: 0,
            lookups: 0,
            adopt_weight: BTreeSet::new(),
            sweeper_held: false,
            jump: None,
            deleted_keys: BTreeSet::new(),
            deferred: None,
            strict_index: false,
            focus: String::new(),
            accounting_broken: false,
            stats_broken: false,
            weight_identity_broken: false,
            swept_deadline: BTreeMap::new(),
            deep: true,
        }
    }

    /// The value the next write of `k` will carry.
    fn peek_token(&self, k: u8) -> u64 { ((k as u64) << 40) | (self.token + 1) }

    fn next_token(&mut self, k: u8) -> u64 {
        self.token += 1;
        ((k as u64) << 40) | self.token
    }

    // -----------------------------------------------------------------------------------------
    // plumbing

    fn call<T>(&mut self, what: &str, f: impl FnOnce(&CacheD<u64, u64>) -> T) -> Check<T> {
        let cache = &self.cache;
        match catch_unwind(AssertUnwindSafe(|| f(cache))) {
            Ok(value) => Ok(value),
            Err(_) => {
                let message = self.inst.panics().last().cloned().unwrap_or_default();
                // a write entry point that panics did not behave as its own property says either
                let also = if what.starts_with("put_or_update") { vec!["C08".to_string()] } else if what.starts_with("put") { vec!["C07".to_string()] } else if what.starts_with("delete") { vec!["C04".to_string()] } else { Vec::new() };
                Err(Failure::new("C17", "C17/caller-panic", format!("{} panicked in the caller: {}", what, message)).with_also(also))
            }
        }
    }

    fn wait_ack(&self, ack: &CommandAcknowledgement, what: &str) -> Check<St> {
        match await_ack(ack, &self.inst) {
            Ok(status) => Ok(St::from(status)),
            Err(WaitError::Panicked(panics)) => Err(Failure::new("C17", "C17/background-panic", format!("a background thread of the cache panicked while {} was awaited: {:?}", what, panics))),
            Err(WaitError::Stalled) => Err(Failure::new("STALL", "stall/ack", format!("the acknowledgement of {} did not complete within {:?} (no panic recorded)", what, WATCHDOG))),
        }
    }

    fn check_background(&self) -> Check {
        if self.inst.has_panicked() {
            let panics = self.inst.panics();
            if panics.iter().any(|message| message.starts_with("background")) {
                return Err(Failure::new("C17", "C17/background-panic", format!("a background thread of the cache panicked: {:?}", panics)));
            }
        }
        Ok(())
    }

    fn unwrap_send(&self, result: CommandSendResult, what: &str) -> Check<Arc<CommandAcknowledgement>> {
        match result {
            Ok(ack) => Ok(ack),
            Err(error) => Err(Failure::new("C13", "C13/err-without-shutdown", format!("{} returned Err({}) although shutdown was never called", what, error))),
        }
    }

    /// Waits until a sweep that started after the call has completed.
    fn wait_sweep(&self) -> Check {
        let started = self.inst.sweeps_started.load(Ordering::Acquire);
        let inst = &self.inst;
        match wait_for(inst, || if inst.sweeps_completed.load(Ordering::Acquire) >= started + 1 && inst.sweeps_started.load(Ordering::Acquire) >= started + 1 { Some(()) } else { None }) {
            Ok(()) => {
                // the sweep counted as `started + 1` began after we read `started`; if it was the one in flight at the
                // time of the clock change we cannot tell, so wait for one more complete sweep
                let started = self.inst.sweeps_started.load(Ordering::Acquire);
                match wait_for(inst, || if inst.sweeps_completed.load(Ordering::Acquire) >= started + 1 { Some(()) } else { None }) {
                    Ok(()) => Ok(()),
                    Err(error) => Err(self.sweep_wait_failure(error)),
                }
            }
            Err(error) => Err(self.sweep_wait_failure(error)),
        }
    }

    fn sweep_wait_failure(&self, error: WaitError) -> Failure {
        match error {
            WaitError::Panicked(panics) => Failure::new("C17", "C17/background-panic", format!("a background thread panicked while waiting for a sweep: {:?}", panics)),
            WaitError::Stalled => Failure::new("STALL", "stall/sweeper", "the sweeper completed no sweep within the watchdog period".to_string()),
        }
    }

    /// A write with a zero time-to-live creates an entry whose deadline equals the current instant, where the
    /// property constrains nothing (an implementation may or may not sweep it). The sweeper is parked at its gate
    /// until the harness has moved the clock one nanosecond on, so that no sweep runs at that open instant.
    fn hold_sweeper(&mut self) {
        if self.sweeper_held || self.cfg.tick_us > 100_000 { return; }
        self.inst.sweeper_gate.close();
        let inst = &self.inst;
        let _ = wait_for(inst, || if inst.sweeper_gate.waiting() >= 1 { Some(()) } else { None });
        self.sweeper_held = true;
    }

    fn release_sweeper(&mut self) {
        if self.sweeper_pinned { return; }
        if self.sweeper_held { self.inst.sweeper_gate.open(); self.sweeper_held = false; }
    }

    fn stat(&self, stats_type: StatsType) -> u64 { self.cache.stats_summary().get(&stats_type).unwrap_or(0) }

    fn wait_sketch_quiescent(&self) -> Check {
        let inst = &self.inst;
        let cache = &self.cache;
        match wait_for(inst, || {
            let added = cache.stats_summary().get(&StatsType::AccessAdded).unwrap_or(0);
            if inst.access_records_applied.load(Ordering::Acquire) == added { Some(()) } else { None }
        }) {
            Ok(()) => Ok(()),
            Err(WaitError::Panicked(panics)) => Err(Failure::new("C17", "C17/background-panic", format!("a background thread panicked while waiting for the access consumer: {:?}", panics))),
            Err(WaitError::Stalled) => Err(Failure::new("STALL", "stall/consumer", "the access consumer did not apply handed-over batches within the watchdog period".to_string())),
        }
    }

    fn note_boundary(&mut self, weight: i64) {
        if is_boundary_weight(weight, self.cfg.max_weight) {
            self.stats.boundary_args += 1;
            if self.boundary_at.is_none() { self.boundary_at = Some(self.stats.ops_executed); }
        }
    }

    // -----------------------------------------------------------------------------------------
    // argument resolution

    fn resolve_ttl(&mut self, sel: &TtlSel) -> Option<Duration> {
        let now = self.model.now;
        let max_repr = Duration::new(i64::MAX as u64 - now.as_secs(), 999_999_999 - now.subsec_nanos());
        let ttl = match sel {
            TtlSel::Zero => Duration::ZERO,
            TtlSel::Nanos(n) => Duration::from_nanos(*n as u64),
            TtlSel::Millis(n) => Duration::from_millis(*n as u64),
            TtlSel::Secs(n) => Duration::from_secs(*n as u64),
            TtlSel::SecsNanos(s, n) => Duration::new(*s as u64, *n % 1_000_000_000),
            TtlSel::Days(n) => Duration::from_secs(*n as u64 * 86_400),
            TtlSel::Years(n) => Duration::from_secs(*n as u64 * 365 * 86_400),
            TtlSel::MaxRepresentable => max_repr,
            TtlSel::Overflow(0) => Duration::MAX,
            TtlSel::Overflow(1) => Duration::from_secs(i64::MAX as u64),
            TtlSel::Overflow(2) => Duration::from_secs(i64::MAX as u64 - now.as_secs() + 1),
            TtlSel::Overflow(_) => max_repr + Duration::from_nanos(1),
        };
        if matches!(sel, TtlSel::Zero | TtlSel::Nanos(_) | TtlSel::MaxRepresentable | TtlSel::Overflow(_)) {
            self.stats.boundary_args += 1;
            if self.boundary_at.is_none() { self.boundary_at = Some(self.stats.ops_executed); }
        }
        if ttl > max_repr {
            if !self.policy.allow_ttl_overflow {
                self.stats.suppress("F8");
                return None;
            }
        }
        Some(ttl)
    }

    fn ttl_overflows(&self, ttl: Duration) -> bool {
        let now = self.model.now;
        ttl > Duration::new(i64::MAX as u64 - now.as_secs(), 999_999_999 - now.subsec_nanos())
    }

    // -----------------------------------------------------------------------------------------
    // quiescent checks

    pub fn quiescent_checks(&mut self, blame: &str) -> Check {
        self.check_background()?;
        // never rest at an instant that equals a held key's deadline: the property leaves that instant open
        // (served or not, swept or not); one nanosecond later the key is plainly expired
        if self.cfg.tick_us <= 100_000 && self.model.held.values().any(|entry| entry.deadline == Some(self.model.now)) && self.model.now.as_nanos() < (u64::MAX / 2 - 10) as u128 {
            let target = self.model.now + Duration::from_nanos(1);
            self.advance_to(target)?;
        }
        self.release_sweeper();
        let used = self.cache.total_weight_used();
        if used < 0 || used > self.cfg.max_weight {
            let failure = Failure::new("C01", "C01/quiescent/out-of-bounds", format!("total_weight_used() = {} outside [0, {}] after op #{}", used, self.cfg.max_weight, self.op_index));
            // a campaign that deliberately over-commits the cache through the recorded finding F5 (weight-raising upserts)
            // and is not about C01 carries on: the breach is the known one as long as the model explains it
            if self.policy.allow_over_limit_upsert && used as i128 == self.model.used() && used > 0 {
                if self.policy.note_over_limit { if self.deferred.is_none() { self.deferred = Some(failure); } } else { self.soft(failure)?; }
            } else { return Err(failure); }
        }
        let permille = ((used as i128 * 1000) / self.cfg.max_weight as i128).clamp(0, 100_000) as u32;
        self.stats.max_used_permille = self.stats.max_used_permille.max(permille);
        if self.deep {
            let snapshot = self.cache.verif_snapshot();
            self.compare_snapshot(&snapshot, blame)?;
            self.stats.snapshot_checks += 1;
        } else {
            ensure!(used as i128 == self.model.used(), blame, &format!("{}/used-mismatch", blame),
                "total_weight_used() = {} but the model holds keys weighing {}", used, self.model.used());
        }
        if !self.stats_broken && !self.accounting_broken {
            if let Err(failure) = self.compare_stats() { self.stats_broken = true; self.soft(failure)?; }
        } else if !self.weight_identity_broken {
            // needs no model: weight added - weight removed == weight in use (C16), whatever else is already known to be off
            let summary = self.cache.stats_summary();
            let added = summary.get(&StatsType::WeightAdded).unwrap_or(0);
            let removed = summary.get(&StatsType::WeightRemoved).unwrap_or(0);
            if added.wrapping_sub(removed) != used as u64 {
                self.weight_identity_broken = true;
                self.soft(Failure::new("C16", "C16/weight", format!("WeightAdded {} - WeightRemoved {} != total weight used {}", added, removed, used)))?;
            }
        }
        let (increments, _) = self.cache.verif_sketch_progress();
        if increments < self.last_sketch_increments { self.stats.sketch_resets += 1; }
        self.last_sketch_increments = increments;
        Ok(())
    }

    fn compare_snapshot(&mut self, snapshot: &Snapshot<u64>, blame: &str) -> Check {
        let tag = |suffix: &str| format!("{}/{}", blame, suffix);
        let mut store: BTreeMap<u8, (u64, Option<Duration>, bool)> = BTreeMap::new();
        for entry in &snapshot.store {
            store.insert(entry.key as u8, (entry.id, entry.expire_after.map(since_epoch), entry.soft_deleted));
        }
        // a key exactly at its deadline may or may not have been collected by a sweep: adopt
        let at_deadline: Vec<u8> = self.model.held.iter().filter(|(k, entry)| entry.deadline == Some(self.model.now) && !store.contains_key(*k)).map(|(k, _)| *k).collect();
        for k in at_deadline { self.model.remove(k); self.stats.swept_keys += 1; }
        for (k, entry) in &self.model.held {
            let expired = self.model.expired(entry);
            if !store.contains_key(k) {
                let lost_blame = if expired || matches!(blame, "C10" | "C04" | "C05") { blame } else { "C03" };
                // one observation, several statements: a key that vanished although it is held, undeleted and unexpired
                let mut also: Vec<String> = Vec::new();
                if !expired {
                    if self.stats.evictions == 0 && self.stats.rejected_space == 0 { also.push("C03".to_string()); }
                    if entry.deadline.is_some() && blame == "C10" { also.push("C09".to_string()); also.push("C10".to_string()); }
                    if entry.last_write_upsert { also.push("C08".to_string()); }
                }
                return Err(Failure::new(lost_blame, &format!("{}/{}", lost_blame, if expired { "lost-expired-early" } else { "lost" }),
                    format!("key {} should be held (value {:#x}, weight {}, deadline {:?}, now {:?}) but the store does not contain it", k, entry.value, entry.weight, entry.deadline, self.model.now)).with_also(also));
            }
        }
        for (k, (id, _, _)) in &store {
            ensure!(self.model.held.contains_key(k), blame, &tag("unexpected-key"),
                "the store holds key {} (id {}) which should not be in the cache", k, id);
        }
        // accounting (C05): bijection store ids <-> charged ids, matching total. Reported at once by the checks of the
        // accounting properties; deferred by the others (see `soft`) so that they can observe what the corruption leads to.
        let mut weights: BTreeMap<u64, (u8, i64)> = BTreeMap::new();
        let deleted_keys = self.deleted_keys.clone();
        let accounting = (|| -> Check {
            let mut sum: i128 = 0;
            for entry in &snapshot.weights {
                ensure!(weights.insert(entry.id, (entry.key as u8, entry.weight)).is_none(), "C05", "C05/duplicate-weight-id", "weight entry id {} twice", entry.id);
                sum += entry.weight as i128;
            }
            for (k, (id, _, _)) in &store {
                match weights.get(id) {
                    None => return Err(Failure::new("C05", "C05/held-key-uncharged", format!("key {} (id {}) is held by the store but no weight is charged for it", k, id))),
                    Some((weight_key, _)) => ensure!(weight_key == k, "C05", "C05/charge-for-other-key", "id {} is held for key {} but charged for key {}", id, k, weight_key),
                }
            }
            for (id, (k, weight)) in &weights {
                let held = store.get(k).map(|(store_id, _, _)| store_id == id).unwrap_or(false);
                if !held {
                    // C04 as well if the key's delete was acknowledged: "its weight is no longer counted"
                    let also = if deleted_keys.contains(k) { vec!["C04".to_string()] } else { Vec::new() };
                    return Err(Failure::new("C05", "C05/charge-without-entry", format!("weight {} is charged under id {} for key {} but the store holds no such entry (store ids: {:?}){}", weight, id, k, store, if also.is_empty() { "" } else { "; the delete of that key was acknowledged Accepted, its weight must no longer be counted" })).with_also(also));
                }
            }
            ensure!(sum == snapshot.weight_used as i128, "C05", "C05/sum-mismatch", "total weight used {} != sum of charged weights {}", snapshot.weight_used, sum);
            Ok(())
        })();
        let accounting_ok = accounting.is_ok();
        if let Err(failure) = accounting { self.soft(failure)?; }
        let adopt: Vec<u8> = self.adopt_weight.iter().copied().collect();
        let jump = self.jump;
        let mut field_failure: Option<Failure> = None;
        for (k, entry) in self.model.held.iter_mut() {
            let (id, expiry, soft_deleted) = store[k];
            if entry.id == 0 || !accounting_ok { entry.id = id; }
            if entry.id != id { field_failure = Some(Failure::new(blame, &tag("entry-replaced"), format!("key {} is held under id {} but the model saw it created under id {}", k, id, entry.id))); break; }
            if entry.explicit_weight_pending {
                entry.explicit_weight_pending = false;
                let charged = weights.get(&id).map(|(_, weight)| *weight);
                if charged != Some(entry.weight) {
                    field_failure = Some(Failure::new("C08", "C08/explicit-weight-not-charged", format!("put_or_update of key {} with the explicit weight {} was acknowledged Accepted, but the key is charged {:?}", k, entry.weight, charged)).with_also(vec!["C12".to_string()]));
                    break;
                }
            }
            if let Some((_, weight)) = weights.get(&id).copied() {
                if adopt.contains(k) {
                    // weight chosen by the implementation (no explicit weight requested): must be positive, then adopted
                    if weight <= 0 { field_failure = Some(Failure::new("C08", "C08/charged-nonpositive", format!("key {} is charged {} after an upsert without an explicit weight", k, weight))); break; }
                    let delta = weight.wrapping_sub(entry.weight);
                    self.model.stats.weight_added = self.model.stats.weight_added.wrapping_add(delta as u64);
                    entry.weight = weight;
                }
                if weight != entry.weight && accounting_ok {
                    let also = if entry.explicit_weight { vec!["C08".to_string()] } else { Vec::new() };
                    field_failure = Some(Failure::new(blame, &tag("weight-mismatch"), format!("key {} is charged {} but should be charged {}{}", k, weight, entry.weight, if entry.explicit_weight { " (the weight explicitly requested by the last acknowledged put_or_update)" } else { "" })).with_also(also));
                    break;
                }
            }
            if expiry != entry.deadline && jump.is_some() && matches!((expiry, entry.deadline, jump), (Some(actual), Some(expected), Some((old, new))) if actual == expected + (new - old)) { entry.deadline = expiry; }
            if expiry != entry.deadline { field_failure = Some(Failure::new(blame, &tag("expiry-mismatch"), format!("key {} has expiry {:?} but should have {:?}", k, expiry, entry.deadline)).with_also(vec!["C09".to_string(), "C08".to_string()])); break; }
            if soft_deleted != entry.soft_deleted { field_failure = Some(Failure::new(blame, &tag("soft-delete-mismatch"), format!("key {} soft_deleted = {} but should be {}", k, soft_deleted, entry.soft_deleted))); break; }
        }
        if let Some(failure) = field_failure { return Err(failure); }
        self.adopt_weight.clear();
        if accounting_ok && !self.accounting_broken {
            ensure!(snapshot.weight_used as i128 == self.model.used(), blame, &tag("used-mismatch"), "total weight used {} but the model holds keys weighing {}", snapshot.weight_used, self.model.used());
        }
        if !accounting_ok { self.accounting_broken = true; }
        // expiry index: internal bookkeeping whose corruption shows only later (a key swept too early or never). The
        // finding is remembered and reported at the end of the case unless a behavioural oracle fails first, so that
        // the check of every property the corruption leads to can observe its own violation.
        if self.deferred.is_none() {
            if let Err(failure) = self.check_ttl_index(snapshot) {
                if self.strict_index { return Err(failure); }
                self.deferred = Some(failure);
            }
        }
        Ok(())
    }

    /// An oracle failure that does not concern the property under check and does not invalidate the model (accounting,
    /// counters, the expiry index) is remembered and reported at the end of the case instead of ending it: what the
    /// corruption leads to (a key lost, a put refused) is then observed by the check of the property it violates.
    fn soft(&mut self, failure: Failure) -> Check {
        if self.focus.is_empty() || failure.concerns(&self.focus) { return Err(failure); }
        if self.deferred.is_none() { self.deferred = Some(failure); }
        Ok(())
    }


    fn check_ttl_index(&self, snapshot: &Snapshot<u64>) -> Check {
        let mut index: HashMap<u64, Vec<(Duration, usize)>> = HashMap::new();
        for entry in &snapshot.ttl {
            index.entry(entry.id).or_default().push((since_epoch(entry.expire_after), entry.shard));
        }
        for (k, entry) in &self.model.held {
            match (entry.deadline, index.get(&entry.id)) {
                (Some(deadline), Some(entries)) => {
                    ensure!(entries.len() == 1, "C10", "C10/index/duplicate", "key {} (id {}) has {} entries in the expiry index: {:?}", k, entry.id, entries.len(), entries);
                    ensure!(entries[0].0 == deadline, "C10", "C10/index/stale-deadline", "key {} (id {}) is indexed with expiry {:?} but its deadline is {:?}", k, entry.id, entries[0].0, deadline);
                    ensure!(entries[0].1 == self.model.shard_of(deadline), "C10", "C10/index/wrong-shard", "key {} (id {}) deadline {:?} is indexed in shard {} of {}", k, entry.id, deadline, entries[0].1, self.model.shards);
                }
                (Some(deadline), None) => return Err(Failure::new("C10", "C10/index/missing", format!("key {} (id {}) has deadline {:?} but no entry in the expiry index: it can never be swept", k, entry.id, deadline))),
                (None, Some(entries)) => return Err(Failure::new("C10", "C10/index/leftover", format!("key {} (id {}) has no time-to-live but is still in the expiry index ({:?}): a sweep would remove it", k, entry.id, entries))),
                (None, None) => {}
            }
        }
        Ok(())
    }

    fn compare_stats(&mut self) -> Check {
        let summary = self.cache.stats_summary();
        let get = |stats_type: StatsType| summary.get(&stats_type).unwrap_or(0);
        let expected = &self.model.stats;
        ensure!(get(StatsType::CacheHits) == expected.hits, "C16", "C16/hits", "CacheHits = {} but {} lookups hit", get(StatsType::CacheHits), expected.hits);
        ensure!(get(StatsType::CacheMisses) == expected.misses, "C16", "C16/misses", "CacheMisses = {} but {} lookups missed", get(StatsType::CacheMisses), expected.misses);
        ensure!(get(StatsType::CacheHits) + get(StatsType::CacheMisses) == self.lookups, "C16", "C16/lookups", "hits + misses = {} but {} lookups were performed", get(StatsType::CacheHits) + get(StatsType::CacheMisses), self.lookups);
        let held = self.model.held.len() as u64;
        ensure!(get(StatsType::KeysAdded).wrapping_sub(get(StatsType::KeysDeleted)) == held, "C16", "C16/keys", "KeysAdded {} - KeysDeleted {} != {} keys held", get(StatsType::KeysAdded), get(StatsType::KeysDeleted), held);
        ensure!(get(StatsType::KeysAdded) == expected.keys_added, "C16", "C16/keys-added", "KeysAdded = {} but {} puts were accepted", get(StatsType::KeysAdded), expected.keys_added);
        ensure!(get(StatsType::KeysDeleted) == expected.keys_deleted, "C16", "C16/keys-deleted", "KeysDeleted = {} but {} keys left the cache", get(StatsType::KeysDeleted), expected.keys_deleted);
        let used = self.cache.total_weight_used();
        ensure!(get(StatsType::WeightAdded).wrapping_sub(get(StatsType::WeightRemoved)) == used as u64, "C16", "C16/weight", "WeightAdded {} - WeightRemoved {} != total weight used {}", get(StatsType::WeightAdded), get(StatsType::WeightRemoved), used);
        ensure!(get(StatsType::KeysRejected) == expected.keys_rejected, "C16", "C16/rejected", "KeysRejected = {} but admission refused {} puts", get(StatsType::KeysRejected), expected.keys_rejected);
        let (hits, misses) = (expected.hits, expected.misses);
        let ratio = if hits + misses == 0 { 0.0 } else { hits as f64 / (hits + misses) as f64 };
        ensure!((summary.hit_ratio - ratio).abs() <= 1e-12, "C16", if misses == 0 && hits > 0 { "C16/hit-ratio/no-misses" } else { "C16/hit-ratio" },
            "hit_ratio = {} but hits {} / lookups {} = {}", summary.hit_ratio, hits, hits + misses, ratio);
        // C15: every hit is buffered, delivered or dropped
        let buffered = self.cache.verif_buffered_accesses() as u64;
        let accounted = buffered + get(StatsType::AccessAdded) + get(StatsType::AccessDropped);
        ensure!(accounted == expected.hits, "C15", "C15/seq/accounting", "hits {} != buffered {} + AccessAdded {} + AccessDropped {}", expected.hits, buffered, get(StatsType::AccessAdded), get(StatsType::AccessDropped));
        self.stats.stats_checks += 1;
        Ok(())
    }

    // -----------------------------------------------------------------------------------------
    // reads

    /// now == deadline: the property constrains neither answer (before: must be served, past: must not)
    fn at_deadline(&self, k: u8) -> bool {
        self.model.held.get(&k).map(|entry| !entry.soft_deleted && match (entry.deadline, self.jump) {
            (Some(deadline), Some((old, new))) => deadline >= old && deadline <= new,
            (Some(deadline), None) => deadline == self.model.now,
            _ => false,
        }).unwrap_or(false)
    }

    /// Whether `actual` is an acceptable deadline for one the model computed as `expected` (= model time + ttl): during an
    /// operation with an armed clock jump the implementation may have read the clock before or after the jump.
    fn deadline_matches(&self, actual: Option<Duration>, expected: Option<Duration>) -> bool {
        if actual == expected { return true; }
        match (actual, expected, self.jump) {
            (Some(actual), Some(expected), Some((old, new))) => actual == expected + (new - old),
            _ => false,
        }
    }

    /// Compares a read result with the model. At the exact deadline instant either answer is accepted and adopted.
    fn settle_read(&mut self, kind: ReadKind, k: u8, got: Option<u64>) -> Check {
        if self.at_deadline(k) {
            self.lookups += 1;
            self.stats.reads += 1;
            let value = self.model.held[&k].value;
            match got {
                Some(found) if found == value => { self.model.stats.hits += 1; self.stats.all_miss = false; }
                None => { self.model.stats.misses += 1; self.stats.all_hit = false; }
                Some(_) => return Err(self.read_failure(kind, k, got, Some(value))),
            }
            return Ok(());
        }
        let expected = self.expect_read(k);
        if got != expected { return Err(self.read_failure(kind, k, got, expected)); }
        Ok(())
    }

    fn expect_read(&mut self, k: u8) -> Option<u64> {
        self.lookups += 1;
        self.stats.reads += 1;
        let expected = self.model.read(k);
        if expected.is_some() { self.stats.hits += 1; self.stats.all_miss = false; } else { self.stats.all_hit = false; }
        if let Some(entry) = self.model.held.get(&k) {
            if let Some(deadline) = entry.deadline {
                if !entry.soft_deleted {
                    let now = self.model.now;
                    if now <= deadline && deadline - now <= Duration::from_nanos(1) { self.stats.reads_near_deadline_before += 1; }
                    if now > deadline && now - deadline <= Duration::from_nanos(1) { self.stats.reads_near_deadline_after += 1; }
                }
            }
            if entry.soft_deleted && self.in_stall { self.stats.reads_in_stall_after_delete += 1; }
        } else if let Some(deadline) = self.swept_deadline.get(&k) {
            let now = self.model.now;
            if now > *deadline && now - *deadline <= Duration::from_nanos(1) { self.stats.reads_near_deadline_after += 1; }
        }
        expected
    }

    fn read_failure(&self, kind: ReadKind, k: u8, got: Option<u64>, expected: Option<u64>) -> Failure {
        let entry = self.model.held.get(&k);
        let (property, tag) = match (got, expected, entry) {
            (Some(_), None, Some(entry)) if entry.soft_deleted => ("C04", "C04/read-after-delete"),
            (Some(_), None, Some(entry)) if self.model.expired(entry) => ("C09", "C09/served-expired"),
            (Some(value), None, None) if (value >> 40) as u8 == k => ("C04", "C04/read-of-removed-key"),
            (Some(value), _, _) if (value >> 40) as u8 != k => ("C02", "C02/foreign-value"),
            (Some(_), Some(_), _) => ("C02", "C02/stale-value"),
            (None, Some(_), Some(entry)) if entry.deadline.is_some() => ("C09", "C09/hidden-before-deadline"),
            (None, Some(_), _) => ("C03", "C03/unreadable"),
            _ => ("C02", "C02/invented-value"),
        };
        Failure::new(property, tag, format!("{:?}({}) returned {:x?}, expected {:x?} (model entry: {:?}, now {:?})", kind, k, got, expected, entry, self.model.now))
    }

    fn exec_read(&mut self, kind: ReadKind, keys: &[u8]) -> Check {
        let keys64: Vec<u64> = keys.iter().map(|k| *k as u64).collect();
        match kind {
            ReadKind::Get | ReadKind::GetRef | ReadKind::MapGet | ReadKind::MapGetRef => {
                let k = keys[0];
                let key = keys64[0];
                let expected_readable = self.model.readable(k) && !self.at_deadline(k);
                let expected_deadline = self.model.held.get(&k).and_then(|entry| entry.deadline);
                let got = match kind {
                    ReadKind::Get => self.call("get", |cache| cache.get(&key))?,
                    ReadKind::GetRef => {
                        let got = self.call("get_ref", |cache| cache.get_ref(&key).map(|reference| (*reference.key(), reference.value().value(), reference.value().expire_after())))?;
                        if let Some((ref_key, _, expiry)) = got {
                            ensure!(ref_key == key, "C02", "C02/foreign-key-ref", "get_ref({}) returned a reference to key {}", key, ref_key);
                            if expected_readable {
                                ensure!(expiry.map(since_epoch) == expected_deadline, "C08", "C08/expiry-visible", "get_ref({}) shows expiry {:?}, expected {:?}", key, expiry.map(since_epoch), expected_deadline);
                            }
                        }
                        got.map(|(_, value, _)| value)
                    }
                    ReadKind::MapGet => self.call("map_get", |cache| cache.map_get(&key, |value| value ^ 1))?.map(|value| value ^ 1),
                    _ => self.call("map_get_ref", |cache| cache.map_get_ref(&key, |stored| stored.value()))?,
                };
                self.settle_read(kind, k, got)?;
            }
            ReadKind::MultiGet => {
                let got = self.call("multi_get", |cache| {
                    let refs: Vec<&u64> = keys64.iter().collect();
                    cache.multi_get(refs).into_iter().map(|(key, value)| (*key, value)).collect::<HashMap<u64, Option<u64>>>()
                })?;
                let distinct: BTreeSet<u8> = keys.iter().copied().collect();
                ensure!(got.len() == distinct.len(), "C02", "C02/multi_get/shape", "multi_get({:?}) returned {} entries for {} distinct keys", keys, got.len(), distinct.len());
                for (index, k) in keys.iter().enumerate() {
                    // with duplicates the map keeps the last lookup; the state does not change in between
                    let value = got.get(&(*k as u64)).copied();
                    ensure!(value.is_some(), "C02", "C02/multi_get/shape", "multi_get({:?}) has no entry for key {}", keys, k);
                    let _ = index;
                    self.settle_read(kind, *k, value.unwrap())?;
                }
            }
            ReadKind::MultiGetIter | ReadKind::MultiGetMapIter => {
                let got: Vec<Option<u64>> = self.call("multi_get_iterator", |cache| {
                    let refs: Vec<&u64> = keys64.iter().collect();
                    if kind == ReadKind::MultiGetIter { cache.multi_get_iterator(refs).collect() } else { cache.multi_get_map_iterator(refs, |value| value ^ 1).map(|value| value.map(|value| value ^ 1)).collect() }
                })?;
                ensure!(got.len() == keys.len(), "C02", "C02/iterator/shape", "{:?}({:?}) yielded {} items for {} keys", kind, keys, got.len(), keys.len());
                for (index, k) in keys.iter().enumerate() { self.settle_read(kind, *k, got[index])?; }
            }
        }
        Ok(())
    }

    // -----------------------------------------------------------------------------------------
    // writes, caller side

    /// Returns None if the op was suppressed (known finding trigger) or answered on the spot.
    fn issue_put(&mut self, k: u8, w: &Option<WSel>, ttl: &Option<TtlSel>) -> Check<Option<PendingCmd>> {
        let key = k as u64;
        let ttl = match ttl { Some(sel) => match self.resolve_ttl(sel) { Some(ttl) => Some(ttl), None => return Ok(None) }, None => None };
        let weight = match w { Some(sel) => sel.resolve(self.cfg.max_weight), None => self.cfg.weight_fn(key, self.peek_token(k), ttl.is_some()) };
        if ttl == Some(Duration::ZERO) { self.hold_sweeper(); }
        let physical = self.model.held.get(&k).cloned();
        if let Some(entry) = &physical {
            if !entry.soft_deleted && self.model.expired(entry) && !self.policy.allow_put_on_expired_unswept {
                self.stats.suppress("F6");
                return Ok(None);
            }
        }
        if self.at_deadline(k) { self.stats.adjusted_ops += 1; return Ok(None); }
        self.note_boundary(weight);
        if self.written_keys.contains(&k) { self.stats.puts_on_used_key += 1; }
        if self.ttl_keys_ever.contains(&k) && physical.is_none() { self.stats.reput_of_ttl_key += 1; }
        let value = self.next_token(k);
        let readable = self.model.readable(k);
        if readable {
            // a snapshot of what must stay untouched
        }
        let what = format!("put(k={}, w={}, ttl={:?})", k, weight, ttl);
        let result = match (w.is_some(), ttl) {
            (false, None) => self.call(&what, |cache| cache.put(key, value))?,
            (true, None) => self.call(&what, |cache| cache.put_with_weight(key, value, weight))?,
            (false, Some(ttl)) => self.call(&what, |cache| cache.put_with_ttl(key, value, ttl))?,
            (true, Some(ttl)) => self.call(&what, |cache| cache.put_with_weight_and_ttl(key, value, weight, ttl))?,
        };
        let ack = self.unwrap_send(result, &what)?;
        self.keep_alive.push(ack.clone());
        self.stats.writes += 1;
        self.written_keys.insert(k);
        if ttl.is_some() { self.ttl_keys_ever.insert(k); }
        let immediate = poll_once(&ack, &noop_waker()).map(St::from);
        match &physical {
            Some(_) if readable => {
                // normally answered on the spot; an implementation may also queue it and refuse it on the worker
                match immediate {
                    Some(St::RejExists) => { self.stats.rejected_exists += 1; Ok(None) }
                    Some(other) => Err(Failure::new("C07", "C07/put-on-readable", format!("{} on a readable key answered {:?} on the spot, expected Rejected(KeyAlreadyExists)", what, other))),
                    None => Ok(Some(PendingCmd { ack, cmd: Pending::Put { k, value, weight, ttl, issued_now: self.model.now, from_upsert: false } })),
                }
            }
            Some(entry) if entry.soft_deleted => {
                // deleted but not yet acknowledged: no property constrains the answer
                if immediate == Some(St::RejExists) { self.stats.rejected_exists += 1; return Ok(None); }
                Ok(Some(PendingCmd { ack, cmd: Pending::Put { k, value, weight, ttl, issued_now: self.model.now, from_upsert: false } }))
            }
            Some(_) => {
                // expired, not swept (probe only): must not be answered KeyAlreadyExists
                if immediate == Some(St::RejExists) {
                    self.soft(Failure::new("C07", "C07/put/expired-unswept", format!("{} on a key past its time-to-live (not yet swept, reads as absent) answered Rejected(KeyAlreadyExists)", what)))?;
                    self.stats.rejected_exists += 1;
                    return Ok(None);
                }
                Ok(Some(PendingCmd { ack, cmd: Pending::Put { k, value, weight, ttl, issued_now: self.model.now, from_upsert: false } }))
            }
            None => {
                ensure!(immediate != Some(St::RejExists) || self.pending_put_exists(k), "C07", "C07/put-on-absent", "{} on a key that reads as absent answered Rejected(KeyAlreadyExists) on the spot", what);
                if immediate == Some(St::RejExists) { self.stats.rejected_exists += 1; return Ok(None); }
                Ok(Some(PendingCmd { ack, cmd: Pending::Put { k, value, weight, ttl, issued_now: self.model.now, from_upsert: false } }))
            }
        }
    }

    fn pending_put_exists(&self, k: u8) -> bool {
        self.pending.iter().any(|pending| matches!(pending.cmd, Pending::Put { k: pending_k, .. } if pending_k == k))
    }

    fn issue_delete(&mut self, k: u8) -> Check<Option<PendingCmd>> {
        let key = k as u64;
        let what = format!("delete(k={})", k);
        let result = self.call(&what, |cache| cache.delete(key))?;
        let ack = self.unwrap_send(result, &what)?;
        self.keep_alive.push(ack.clone());
        self.stats.writes += 1;
        if let Some(entry) = self.model.held.get_mut(&k) { entry.soft_deleted = true; }
        Ok(Some(PendingCmd { ack, cmd: Pending::Delete { k } }))
    }

    fn issue_upsert(&mut self, k: u8, with_value: bool, w: &Option<WSel>, ttl_req: &TtlReq) -> Check<Option<PendingCmd>> {
        let key = k as u64;
        let mut with_value = with_value;
        if !with_value && w.is_none() && *ttl_req == TtlReq::Keep { with_value = true; self.stats.adjusted_ops += 1; }
        if self.at_deadline(k) { self.stats.adjusted_ops += 1; return Ok(None); }
        let physical = self.model.held.get(&k).cloned();
        let pending_put = self.pending_put_exists(k);
        if let Some(entry) = &physical {
            if (entry.soft_deleted || self.model.expired(entry)) && !self.policy.allow_upsert_on_dead_entry {
                self.stats.suppress("F7");
                return Ok(None);
            }
        }
        if physical.is_none() && !with_value { with_value = true; self.stats.adjusted_ops += 1; }
        let ttl = match ttl_req { TtlReq::Set(sel) => match self.resolve_ttl(sel) { Some(ttl) => Some(ttl), None => return Ok(None) }, _ => None };
        if ttl == Some(Duration::ZERO) { self.hold_sweeper(); }
        let remove = *ttl_req == TtlReq::Remove;
        let explicit = w.as_ref().map(|sel| match (sel, self.model.held.get(&k)) { (WSel::Current, Some(entry)) => entry.weight, _ => sel.resolve(self.cfg.max_weight) });
        let computed = if with_value { Some(self.cfg.weight_fn(key, self.peek_token(k), ttl.is_some())) } else { None };
        let base = explicit.or(computed);
        let value = if with_value { Some(self.next_token(k)) } else { None };
        let now = self.model.now;

        // predicted queued weight change for an in-place update (implementation rule; used only to keep
        // the triggers of known findings F5 / F9 out of the main campaigns)
        let mut predicted: Option<i64> = None;
        let f8_trigger = ttl.map(|ttl| self.ttl_overflows(ttl)).unwrap_or(false);
        let mut f9_trigger = false;
        let mut over_limit = false;
        if let Some(entry) = &physical {
            let new_deadline = if remove { None } else if let Some(ttl) = ttl { Some(deadline_of(now, ttl)) } else { entry.deadline };
            predicted = match (entry.deadline, new_deadline) {
                (None, Some(_)) => match base { Some(weight) => Some(weight), None => match entry.weight.checked_add(TTL_ENTRY) { Some(weight) => Some(weight), None => { self.stats.suppress("F9"); return Ok(None); } } },
                (Some(_), None) => match base {
                    Some(weight) => Some(weight),
                    None => {
                        if entry.weight <= TTL_ENTRY && !self.policy.allow_ttl_toggle_small_weight { self.stats.suppress("F9"); return Ok(None); }
                        if entry.weight <= TTL_ENTRY { f9_trigger = true; }
                        Some(entry.weight - TTL_ENTRY)
                    }
                },
                _ => base,
            };
            if let Some(weight) = predicted {
                // F5: the queued weight update is applied without a bound. Keep it out of the main campaigns: project the
                // weight total at the time the update will be applied (queued updates and puts ahead of it included; evictions
                // and rejections can only make it smaller) and suppress the draw if the update would push it over the limit.
                let projected_weight_of = |key: u8, held_weight: i64| -> i128 {
                    self.pending.iter().rev().find_map(|pending| match &pending.cmd {
                        Pending::UpdateWeight { k: pending_k, weight, .. } if *pending_k == key => Some(*weight as i128),
                        _ => None,
                    }).unwrap_or(held_weight as i128)
                };
                let mut projected_used: i128 = self.model.held.iter().map(|(key, held)| projected_weight_of(*key, held.weight)).sum();
                projected_used += self.pending.iter().map(|pending| match &pending.cmd { Pending::Put { weight, .. } if *weight <= self.cfg.max_weight => *weight as i128, _ => 0 }).sum::<i128>();
                let delta = weight as i128 - projected_weight_of(k, entry.weight);
                if delta > 0 && projected_used + delta > self.cfg.max_weight as i128 {
                    if !self.policy.allow_over_limit_upsert {
                        self.stats.suppress("F5");
                        return Ok(None);
                    }
                    over_limit = true;
                }
            }
        }

        let mut builder = PutOrUpdateRequestBuilder::new(key);
        if let Some(value) = value { builder = builder.value(value); }
        if let Some(weight) = explicit { builder = builder.weight(weight); self.note_boundary(weight); }
        if let Some(ttl) = ttl { builder = builder.time_to_live(ttl); }
        if remove { builder = builder.remove_time_to_live(); }
        let what = format!("put_or_update(k={}, value={:x?}, weight={:?}, ttl={:?}, remove_ttl={})", k, value, explicit, ttl, remove);
        let request = match catch_unwind(AssertUnwindSafe(|| builder.build())) {
            Ok(request) => request,
            Err(_) => return Err(Failure::new("C17", "C17/caller-panic", format!("building {} panicked", what))),
        };
        let _ = verif::take_last_upsert_in_place();
        let result = match self.call(&what, |cache| cache.put_or_update(request)) {
            Ok(result) => result,
            Err(mut failure) => {
                if f8_trigger { failure.tag = "C17/ttl-overflow".to_string(); } else if f9_trigger { failure.tag = "C17/upsert-ttl-toggle/weight-arith".to_string(); }
                return Err(failure);
            }
        };
        let in_place = verif::take_last_upsert_in_place();
        let ack = self.unwrap_send(result, &what)?;
        self.keep_alive.push(ack.clone());
        self.stats.writes += 1;
        self.written_keys.insert(k);
        *self.upserts_per_key.entry(k).or_insert(0) += 1;
        if self.upserts_per_key[&k] >= 2 { self.stats.repeated_upserts += 1; }
        let shape = (with_value as u8) | ((explicit.is_some() as u8) << 1) | (match ttl_req { TtlReq::Keep => 0, TtlReq::Set(_) => 1, TtlReq::Remove => 2 } << 2);
        let state = match &physical { None => 0u8, Some(entry) if entry.soft_deleted => 4, Some(entry) if self.model.expired(entry) => 3, Some(entry) if entry.deadline.is_some() => 2, Some(_) => 1 };
        if self.shapes_seen.insert((shape, state)) { self.stats.upsert_shapes += 1; }

        match physical {
            None => {
                // behaves like the corresponding put
                self.stats.upserts_as_put += 1;
                if !pending_put {
                    ensure!(in_place != Some(true), "C08", "C08/absent/in-place", "{} on an absent key updated an entry in place", what);
                }
                let weight = base.expect("value present");
                self.note_boundary(weight);
                if ttl.is_some() { self.ttl_keys_ever.insert(k); }
                let immediate = poll_once(&ack, &noop_waker()).map(St::from);
                ensure!(immediate != Some(St::RejExists) || pending_put, "C07", "C07/put-on-absent", "{} on an absent key answered Rejected(KeyAlreadyExists) on the spot", what);
                Ok(Some(PendingCmd { ack, cmd: Pending::Put { k, value: value.unwrap(), weight, ttl, issued_now: now, from_upsert: true } }))
            }
            Some(entry) => {
                self.stats.upserts_in_place += 1;
                let dead = entry.soft_deleted || self.model.expired(&entry);
                let model_entry = self.model.held.get_mut(&k).unwrap();
                model_entry.last_write_upsert = true;
                if let Some(value) = value { model_entry.value = value; }
                if remove {
                    if model_entry.deadline.is_some() { self.stats.ttl_removed += 1; self.ttl_changed_since_sweep = true; }
                    model_entry.deadline = None;
                } else if let Some(ttl) = ttl {
                    model_entry.deadline = Some(deadline_of(now, ttl));
                    self.stats.ttl_changes += 1;
                    self.ttl_changed_since_sweep = true;
                    self.ttl_keys_ever.insert(k);
                }
                let incarnation = model_entry.incarnation;
                let expected_value = model_entry.value;
                let expected_deadline = model_entry.deadline;
                if !dead {
                    // C08: visible as soon as the call returns (peek does not count as a lookup)
                    let peek = self.cache.verif_peek(&key);
                    match peek {
                        None => return Err(Failure::new("C08", "C08/in-place/entry-vanished", format!("after {} the key is not in the store", what))),
                        Some((_, expiry, _)) => {
                            if !self.deadline_matches(expiry.map(since_epoch), expected_deadline) {
                                // the deadline a key ends up with is also what C09 is about
                                return Err(Failure::new("C08", "C08/in-place/expiry", format!("after {} returned the expiry is {:?}, expected {:?}", what, expiry.map(since_epoch), expected_deadline)).with_also(vec!["C09".to_string()]));
                            }
                            if expiry.map(since_epoch) != expected_deadline {
                                // the clock jumped inside the call and the later reading was used: adopt
                                if let Some(model_entry) = self.model.held.get_mut(&k) { model_entry.deadline = expiry.map(since_epoch); }
                            }
                        }
                    }
                    if self.at_deadline(k) {
                        let got = self.call("get", |cache| cache.get(&key))?;
                        self.settle_read(ReadKind::Get, k, got)?;
                        return self.finish_in_place(ack, k, incarnation, predicted, explicit.is_some(), over_limit, entry.weight, &what);
                    }
                    self.lookups += 1;
                    self.model.stats.hits += 1;
                    self.stats.reads += 1;
                    self.stats.all_miss = false;
                    let got = self.call("get", |cache| cache.get(&key))?;
                    ensure!(got == Some(expected_value), "C08", "C08/in-place/value", "after {} returned get({}) = {:x?}, expected {:x?}", what, k, got, Some(expected_value));
                } else {
                    // probe for F7: an accepted upsert must not be silently lost
                    let status = if self.in_stall { None } else { Some(self.wait_ack(&ack, &what)?) };
                    if status == Some(St::Accepted) || self.in_stall {
                        self.lookups += 1;
                        let got = self.call("get", |cache| cache.get(&key))?;
                        let readable_now = self.model.readable(k);
                        if got.is_some() { self.model.stats.hits += 1; } else { self.model.stats.misses += 1; }
                        if value.is_some() && !readable_now && got.is_none() {
                            // known finding F7 of C08; campaigns of other properties note it and carry on
                            self.soft(Failure::new("C08", if entry.soft_deleted { "C08/upsert/soft-deleted" } else { "C08/upsert/expired-unswept/no-ttl-change" },
                                format!("{} on a key that reads as absent ({}) was acknowledged {:?} but get({}) = None: the upsert is lost", what, if entry.soft_deleted { "deleted, delete not yet acknowledged" } else { "past its time-to-live, not yet swept" }, status, k)))?;
                        }
                        // (a deadline inside the window of an armed clock jump, or exactly now, leaves the answer open)
                        if readable_now && !self.at_deadline(k) && got != Some(expected_value) {
                            // the upsert gave the dead entry a new deadline: it is readable again and must show the new state
                            // readable again because the upsert moved or removed the deadline: also what C09 is about
                            return Err(Failure::new("C08", "C08/in-place/value", format!("after {} get({}) = {:x?}, expected {:x?}", what, k, got, Some(expected_value))).with_also(if remove || ttl.is_some() { vec!["C09".to_string()] } else { Vec::new() }));
                        }
                    }
                }
                self.finish_in_place(ack, k, incarnation, predicted, explicit.is_some(), over_limit, entry.weight, &what)
            }
        }
    }

    #[allow(clippy::too_many_arguments)]
    fn finish_in_place(&mut self, ack: Arc<CommandAcknowledgement>, k: u8, incarnation: u32, predicted: Option<i64>, explicit: bool, over_limit: bool, old_weight: i64, what: &str) -> Check<Option<PendingCmd>> {
        match predicted {
            Some(weight) => {
                if weight < old_weight { self.stats.weight_decreases += 1; }
                Ok(Some(PendingCmd { ack, cmd: Pending::UpdateWeight { k, incarnation, weight, explicit, over_limit } }))
            }
            None => {
                let immediate = poll_once(&ack, &noop_waker()).map(St::from);
                ensure!(immediate == Some(St::Accepted) || immediate.is_none(), "C08", "C08/in-place/status", "{} answered {:?}", what, immediate);
                if immediate.is_none() {
                    // the implementation queued something we did not predict; treat it as a weight update to be observed
                    return Ok(Some(PendingCmd { ack, cmd: Pending::UpdateWeight { k, incarnation, weight: old_weight, explicit: false, over_limit: false } }));
                }
                Ok(None)
            }
        }
    }
}

include!("seq_worker.rs");
