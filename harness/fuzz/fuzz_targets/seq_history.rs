#![no_main]
// libFuzzer target: bytes -> SeqCase -> SEQ engine (reference model). The oracle is inside the target: any oracle
// failure that concerns the property named in VERIF_FUZZ_PROPERTY (or any property if unset) aborts.
use libfuzzer_sys::fuzz_target;

fuzz_target!(|data: &[u8]| {
    cached_verif::base::install_panic_hook();
    let case = cached_verif::fuzzdec::seq_case_from_bytes(data);
    let outcome = cached_verif::seq::run_seq_case(&case, &cached_verif::model::Policy::default());
    if let Some(failure) = outcome.failure {
        if failure.property == "INCONCLUSIVE" || failure.property == "STALL" { return; }
        let wanted = std::env::var("VERIF_FUZZ_PROPERTY").ok();
        if wanted.as_deref().map(|property| failure.concerns(property)).unwrap_or(true) {
            eprintln!("FUZZ-FAILURE {} {}", failure.tag, failure.message);
            std::process::abort();
        }
    }
});
