#![no_main]
use libfuzzer_sys::fuzz_target;

fuzz_target!(|data: &[u8]| {
    let case = cached_verif::fuzzdec::sketch_case_from_bytes(data);
    if let (_, Some(failure)) = cached_verif::sketch::run_sketch_case(&case) {
        eprintln!("FUZZ-FAILURE {} {}", failure.tag, failure.message);
        std::process::abort();
    }
});
