#!/usr/bin/env python3
"""Runs registered checks against an already stored seeded change: seed_run.py <name> <checks...>; updates meta.json."""
import json, subprocess, sys, time
name = sys.argv[1]; checks = sys.argv[2:]
dest = f"/verif/seeded/{name}"
def sh(cmd): 
    r = subprocess.run(cmd, shell=True, capture_output=True, text=True); return r.returncode, r.stdout + r.stderr
assert sh("git -C /repo status --porcelain --untracked-files=no")[1].strip() == "", "/repo not clean"
rc, o = sh(f"git -C /repo apply {dest}/patch.diff"); assert rc == 0, o
meta = json.load(open(f"{dest}/meta.json"))
try:
    for check in checks:
        t = time.time(); rc, o = sh(f"/verif/run {check} quick")
        tag = next((l.strip() for l in o.splitlines() if l.strip().startswith("cause tag")), "")
        meta.setdefault("checks_quick", {})[check] = {"exit": rc, "tag": tag.replace("cause tag: ", ""), "wall_s": round(time.time() - t, 1)}
        print(name, check, meta["checks_quick"][check])
finally:
    sh("git -C /repo checkout -- .")
json.dump(meta, open(f"{dest}/meta.json", "w"), indent=1)
