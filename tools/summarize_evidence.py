#!/usr/bin/env python3
"""Prints a markdown table of what the last run of every check covered (from /verif/evidence/*.json)."""
import json, glob, os
rows = []
for path in sorted(glob.glob(os.path.join(os.path.dirname(os.path.dirname(os.path.abspath(__file__))), "evidence", "C*.json"))):
    e = json.load(open(path))
    for c in e["coverage"]["campaigns"]:
        rows.append((e["property_id"], e["tier"], c["name"], c["engine"], c["evaluations"], c["distinct_nontrivial"], round(c["wall_s"], 1)))
print("| property | tier | campaign | engine | cases | distinct non-trivial | wall s |\n|---|---|---|---|---|---|---|")
for r in rows: print("| " + " | ".join(str(x) for x in r) + " |")
