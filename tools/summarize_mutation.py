#!/usr/bin/env python3
"""Summarises /verif/mutation/results.jsonl (see mutate_sweep.py)."""
import json, collections
rows = [json.loads(l) for l in open("/verif/mutation/results.jsonl")]
by = collections.Counter(r["outcome"] for r in rows)
print("mutants tried:", len(rows), dict(by))
alive = [r for r in rows if r["outcome"] in ("detected", "SURVIVED", "inconclusive")]
print("compiled and passed the repository's suite:", len(alive))
print("| file | passed the suite | reported by a check | not reported |")
print("|---|---|---|---|")
files = sorted(set(r["file"] for r in alive))
for f in files:
    sub = [r for r in alive if r["file"] == f]
    print(f"| {f.replace('src/cache/', '')} | {len(sub)} | {sum(r['outcome'] == 'detected' for r in sub)} | {sum(r['outcome'] != 'detected' for r in sub)} |")
print()
for r in alive:
    if r["outcome"] != "detected": print(r["outcome"], r["file"], r["line"], "|", r["before"][:80], "->", r["after"][:80] or "(deleted)", "|", r.get("note", ""))
print()
tags = collections.Counter((r["by"], r["tag"]) for r in rows if r["outcome"] == "detected")
for (check, tag), n in tags.most_common(): print(n, check, tag)
