#!/usr/bin/env python3
"""Automated mutation sweep: applies simple syntactic mutations to the non-test code of /repo/src, keeps the ones that
compile and pass the repository's own test suite, and runs the quick checks of the properties anchored in the mutated
file against them. usage: mutate_sweep.py <seed> <max_mutants> [minutes]. Appends to /verif/mutation/results.jsonl.
/repo must be clean; it is restored after every mutant."""
import json, os, random, re, subprocess, sys, time
seed = int(sys.argv[1]); limit = int(sys.argv[2]); minutes = float(sys.argv[3]) if len(sys.argv) > 3 else 1e9
deadline = time.time() + minutes * 60
FILES = {
 "src/cache/cached.rs": ["C07", "C08", "C04", "C02", "C13", "C05"],
 "src/cache/store/mod.rs": ["C03", "C04", "C07", "C08", "C09", "C02"],
 "src/cache/store/stored_value.rs": ["C09", "C08", "C04", "C02"],
 "src/cache/command/command_executor.rs": ["C11", "C05", "C13", "C07", "C12"],
 "src/cache/command/acknowledgement.rs": ["C12", "C13"],
 "src/cache/policy/admission_policy.rs": ["C06", "C01", "C15", "C18"],
 "src/cache/policy/cache_weight.rs": ["C05", "C01", "C06", "C16"],
 "src/cache/expiration/mod.rs": ["C10", "C09", "C03", "C05"],
 "src/cache/pool.rs": ["C15", "C17"],
 "src/cache/lfu/tiny_lfu.rs": ["C14", "C06"],
 "src/cache/lfu/frequency_counter.rs": ["C14", "C06", "C17"],
 "src/cache/lfu/doorkeeper.rs": ["C14"],
 "src/cache/stats/mod.rs": ["C16", "C15"],
 "src/cache/put_or_update.rs": ["C08", "C17"],
}
OPS = [(" < ", " <= "), (" <= ", " < "), (" > ", " >= "), (" >= ", " > "), (" == ", " != "), (" != ", " == "), (" && ", " || "), (" || ", " && "),
       (" + ", " - "), (" - ", " + "), ("true", "false"), ("false", "true"), (".is_some()", ".is_none()"), (".is_none()", ".is_some()")]
def sh(cmd, timeout=1800):
    try:
        r = subprocess.run(cmd, shell=True, capture_output=True, text=True, timeout=timeout)
        return r.returncode, r.stdout + r.stderr
    except subprocess.TimeoutExpired:
        return 124, "timeout"
def candidates():
    out = []
    for path in FILES:
        lines = open("/repo/" + path).read().split("\n")
        for number, line in enumerate(lines):
            if "#[cfg(test)]" in line: break
            stripped = line.strip()
            if not stripped or stripped.startswith("//") or stripped.startswith("#[") or "verif" in line or any(word in line for word in ("debug!", "info!", "warn!", "assert", "use ", "fn ", "where ", "impl", "->", "=>", "pub struct", "///")): continue
            for old, new in OPS:
                start = 0
                while True:
                    at = line.find(old, start)
                    if at < 0: break
                    out.append((path, number, at, old, new))
                    start = at + len(old)
            # statement deletion: a line that is one call statement
            if re.match(r"^\s*(self\.|[a-z_]+\.)[a-z_\.]+\([^;]*\);\s*$", line) and "let " not in line and "return" not in line:
                out.append((path, number, -1, line, ""))
    return out
assert sh("git -C /repo status --porcelain --untracked-files=no")[1].strip() == "", "/repo not clean"
os.makedirs("/verif/mutation", exist_ok=True)
done = set()
results_path = "/verif/mutation/results.jsonl"
if os.path.exists(results_path):
    for l in open(results_path):
        r = json.loads(l); done.add((r["file"], r["line"], r["col"], r["old"], r["new"]))
cands = candidates()
random.Random(seed).shuffle(cands)
count = 0
for path, number, at, old, new in cands:
    if count >= limit or time.time() > deadline: break
    key = (path, number + 1, at, old.strip() if at < 0 else old, new)
    if key in done: continue
    full = "/repo/" + path
    text = open(full).read()
    lines = text.split("\n")
    original = lines[number]
    lines[number] = ("" if at < 0 else original[:at] + new + original[at + len(old):])
    open(full, "w").write("\n".join(lines))
    record = {"file": path, "line": number + 1, "col": at, "old": key[3], "new": new, "before": original.strip(), "after": lines[number].strip()}
    try:
        rc, o = sh("cd /repo && cargo build --offline 2>&1 | tail -3", 600)
        if "error" in o or rc != 0:
            record["outcome"] = "does-not-compile"
        else:
            rc, o = sh("cd /repo && cargo nextest run --workspace --no-fail-fast --tool-config-file pb:/w/lib/nextest.toml --profile pb --test-threads 8 --offline 2>&1 | tail -4", 100)
            summary = [l for l in o.splitlines() if "Summary" in l]
            if rc != 0 or not summary or "failed" in summary[-1] or "passed" not in summary[-1]:
                record["outcome"] = "killed-by-repo-suite"
            else:
                record["outcome"] = "SURVIVED"
                record["checks"] = {}
                for check in FILES[path]:
                    t = time.time()
                    rc, o = sh(f"/verif/run {check} quick", 900)
                    tag = next((l.strip().replace("cause tag: ", "") for l in o.splitlines() if l.strip().startswith("cause tag")), "")
                    record["checks"][check] = {"exit": rc, "tag": tag, "wall_s": round(time.time() - t, 1)}
                    if rc == 1:
                        record["outcome"] = "detected"; record["by"] = check; record["tag"] = tag
                        break
                    if rc not in (0, 1):
                        record["outcome"] = "inconclusive"; record["by"] = check
                        break
        count += 1
    finally:
        sh("git -C /repo checkout -- .")
    open(results_path, "a").write(json.dumps(record) + "\n")
    print(record["outcome"], path, number + 1, repr(record["before"][:70]), "->", repr(record["after"][:70]), record.get("by", ""), record.get("tag", ""), flush=True)
