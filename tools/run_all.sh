#!/bin/bash
# usage: tools/run_all.sh [tier] ; env VERIF_SEED. Prints one line per property.
tier=${1:-quick}
cd "$(dirname "$0")/.."
for p in C01 C02 C03 C04 C05 C06 C07 C08 C09 C10 C11 C12 C13 C14 C15 C16 C17 C18; do
  start=$(date +%s.%N)
  out=$(./run $p $tier 2>&1); rc=$?
  end=$(date +%s.%N)
  printf "%s seed=%s exit=%d wall=%.1fs %s\n" $p "${VERIF_SEED:-1}" $rc $(echo "$end - $start" | bc) "$(echo "$out" | grep -E "VIOLATION|INCONCLUSIVE|cause tag" | head -2 | tr '\n' ' ' | cut -c1-300)"
done
