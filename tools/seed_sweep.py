#!/usr/bin/env python3
"""Runs the quick check of its target property against every stored seeded change with a given VERIF_SEED:
seed_sweep.py <verif_seed> [name-prefix]; writes seeded/sweep_seed<N>.json (exit code / tag / wall per change)."""
import json, os, subprocess, sys, time
seed = sys.argv[1]; prefix = sys.argv[2] if len(sys.argv) > 2 else ""
def sh(cmd):
    r = subprocess.run(cmd, shell=True, capture_output=True, text=True); return r.returncode, r.stdout + r.stderr
out = {}
path = f"/verif/seeded/sweep_seed{seed}.json"
if os.path.exists(path): out = json.load(open(path))
for name in sorted(os.listdir("/verif/seeded")):
    d = f"/verif/seeded/{name}"
    if not os.path.isdir(d) or not name.startswith(prefix) or not os.path.exists(f"{d}/meta.json") or name in out: continue
    meta = json.load(open(f"{d}/meta.json"))
    prop = meta["property"]
    assert sh("git -C /repo status --porcelain --untracked-files=no")[1].strip() == "", "/repo not clean"
    rc, o = sh(f"git -C /repo apply {d}/patch.diff")
    if rc != 0: out[name] = {"apply": o[-200:]}; continue
    try:
        t = time.time(); rc, o = sh(f"VERIF_SEED={seed} /verif/run {prop} quick")
        tag = next((l.strip() for l in o.splitlines() if l.strip().startswith("cause tag")), "")
        out[name] = {"property": prop, "exit": rc, "tag": tag.replace("cause tag: ", ""), "wall_s": round(time.time() - t, 1)}
        print(name, out[name], flush=True)
    finally:
        sh("git -C /repo checkout -- .")
    json.dump(out, open(path, "w"), indent=1)
missed = [n for n, r in out.items() if r.get("exit") != 1]
print("not caught:", missed)
