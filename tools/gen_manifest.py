#!/usr/bin/env python3
"""Regenerates /verif/MANIFEST.json from the table below (single source of truth for the registered checks)."""
import json, os, subprocess
HERE = os.path.dirname(os.path.dirname(os.path.abspath(__file__)))
CHECKS = {
 # id: (engine, technique, level text, level note, design ref)
 "C01": ("SEQ+CONC+FUZZ", "model-based stateful PBT (proptest) with invariant over every observation", "weight bound 0 <= used <= limit observed after every op, inside stall windows and after release on thousands of generated histories under pressure; after a noted over-limit upsert (F5) every accepted put must restore the bound; readers polling the total of a full cache of thousands of keys under evicting puts", "reference model + hooks trusted; F5 trigger excluded by construction and probed separately", "5/C01"),
 "C02": ("SEQ+CONC", "generated concurrent programs + delay injection, pure history checker over stamped logs (unique value tokens)", "every value returned by any of the 7 read variants in generated concurrent histories is checked for origin, key and staleness", "stamps from one atomic counter; one-directional rule (absent always allowed); interleavings sampled", "5/C02"),
 "C03": ("SEQ+CONC+VOLUME+FUZZ", "model-based stateful PBT against a reference model (no-pressure histories)", "every accepted, undeleted, unexpired key is physically present and readable after every op of generated no-pressure histories; bulk histories of thousands of keys against a plain map; in concurrent histories a key with a single sequential writer must read back its latest value / be held at quiescence; directed regression of F11 and F12", "reference model trusted; clock owned by harness", "5/C03"),
 "C04": ("SEQ+CONC+FUZZ", "model-based stateful PBT with worker stall windows", "reads between delete() returning and its acknowledgement, statuses of deletes in every key state, weight release checked against the model; deletes, upserts and puts (single and in stall-window bursts) on expired-unswept keys with the sweeper parked", "reference model trusted", "5/C04"),
 "C05": ("SEQ+CONC+VOLUME+FUZZ", "model-based stateful PBT; invariant over physical snapshots at every quiescent point", "bijection store ids <-> charged ids and weight total == sum of charges after every quiescent step incl. unawaited same-key bursts; bulk histories of thousands of keys (store, weight map, expiry index and total compared with a plain map after each phase)", "snapshot hooks trusted", "5/C05"),
 "C06": ("SEQ+CONC+FUZZ", "trace validation: every admission step re-validated against independently pre-read estimates (validity predicate)", "every admission decision of generated pressure histories validated step by step; directed regression of F12 (a put that fits must evict nothing)", "AdmissionStep trace events trusted to reflect the decision loop; cross-checked with snapshots and pre-read estimates", "5/C06"),
 "C07": ("SEQ+CONC+FUZZ", "model-based stateful PBT over key life-cycle states", "all four put variants on keys in generated life-cycle states; statuses and untouched state compared with the model", "reference model trusted; F6 excluded and probed", "5/C07"),
 "C08": ("SEQ+FUZZ", "model-based stateful PBT over request shapes x key states", "all builder-accepted put_or_update shapes; effects checked at return and after acknowledgement", "reference model trusted; F7 excluded and probed", "5/C08"),
 "C09": ("SEQ+CONC+VOLUME+FUZZ", "model-based stateful PBT with harness-owned clock and deadline walks", "reads 1 ns before / on / after deadlines after TTL changes, with the sweeper on and off; bulk histories with second-by-second clock walks; sole-writer keys in concurrent histories must be readable until their earliest possible deadline", "reference model trusted", "5/C09"),
 "C10": ("SEQ+CONC+VOLUME+FUZZ", "model-based stateful PBT with synchronised sweeps and shard rotations", "safety after every completed sweep and bounded liveness after a full shard rotation on generated TTL histories; bulk histories (thousands of expiries per sweep, up to 1024 expiry shards); a sweeper that completes no sweep for a watchdog period is a violation", "sweep-counter hooks trusted", "5/C10"),
 "C11": ("SEQ+CONC+FUZZ", "generated unawaited bursts + injection; trace checker (exactly once, non-overlapping, submission order) and acknowledgement-order probe", "trace of executed commands compared with the call history of generated bursts on queues down to 1", "Executed/Sent trace events trusted; commands identified by a per-acknowledgement id (hook)", "5/C11"),
 "C12": ("ACK+SEQ+CONC", "harness-owned schedules: exhaustive enumeration of bounded shapes + generated choice vectors (proptest) + end-to-end stress", "all interleavings of done() with polls for shapes <= 2 tasks x 2 polls / 1 task x 3 polls enumerated; larger shapes sampled; 320k real puts busy-polled/parked; sequential stall-window bursts judged for 'acknowledged Accepted => executed and visible'", "schedule points + serialising turnstile trusted; x86 memory ordering not explored", "5/C12"),
 "C13": ("SEQ+ACK+CONC", "generated concurrent programs with shutdown calls + injection between the steps of shutdown(); history checker", "statuses and return values of every call around generated shutdown points; every acknowledgement completes; shutdown returns; acknowledgement schedules completed with ShuttingDown (the wake-up must reach the caller)", "no-progress watchdog (15 s quick, 60 s thorough) is the only timing oracle", "5/C13"),
 "C14": ("SKETCH+FUZZ", "differential testing against an unpacked reference; exhaustive byte table + generated streams (proptest)", "256-value byte table enumerated; generated streams over all counter sizes compared counter by counter after every op; ageing checked at the exact threshold", "thin wrappers trusted to delegate; bloom filter answers observed, everything else predicted", "5/C14"),
 "C15": ("SEQ+CONC+VOLUME", "generated read workloads with the consumer free/stopped (gate hook); counter identities at quiescence", "hits == buffered + delivered + dropped on generated multi-threaded read workloads with pool/buffer sizes down to 1; bulk reads with access buffers up to 1000: every delivered record must be recorded by the sketch", "gate and buffered-count hooks trusted", "5/C15"),
 "C16": ("SEQ+CONC+VOLUME+FUZZ", "model-based stateful PBT: model counters vs stats_summary at every quiescent point", "all counters and hit ratio compared with the model after every op; bulk histories and a directed volume scenario (sweeper and worker removing tens of thousands of keys at the same time)", "reference model trusted", "5/C16"),
 "C17": ("SEQ+CONC+FUZZ", "boundary-value stateful PBT with catch_unwind, global panic hook and liveness probe", "generated histories/configurations at arithmetic boundaries; no caller or background panic; worker/consumer/sweeper alive afterwards; tiny programs under the controlled scheduler (no background thread may stop making progress)", "panic attribution through thread-local hook instance", "5/C17"),
 "C18": ("CONC", "generated concurrent programs with maximal lock sharing + delay injection after lock sites; no-progress watchdog with CPU check", "no generated program blocked: every call returned, every acknowledgement completed, background threads alive afterwards; readers through get_ref against evicting puts with a saturated access pipeline; eviction vs sweeper; sweep races", "sampling of schedules; blocked = no progress for 15 s (quick) / 60 s (thorough) with idle threads", "5/C18"),
}
PENDING = {
}
def main():
    commits = subprocess.run(["git", "-C", "/repo", "log", "--format=%h %s"], capture_output=True, text=True).stdout.strip().splitlines()
    hook_commits = [c.split()[0] for c in commits if "verif" in c.lower() and not c.split(" ",1)[1].startswith("fix:")]
    manifest = {
        "version": 1,
        "setup_cmd": "cd /verif/harness && CARGO_NET_OFFLINE=true cargo build --release --offline",
        "hooks": {
            "guard": "cargo feature verif_hooks",
            "enable": "harness/Cargo.toml depends on tinylfu-cached = { path = \"/repo\", features = [\"verif_hooks\"] }; every ./run rebuilds it from /repo's working tree",
            "baseline_off_cmd": "cd /repo && cargo nextest run --workspace --no-fail-fast --tool-config-file pb:/w/lib/nextest.toml --profile pb --test-threads 8 --offline",
            "source_commits": hook_commits,
            "add_only": True,
        },
        "engines": [
            {"name": "ACK", "path": "harness/src/ack.rs", "serves_properties": ["C12"], "kind_free_text": "turnstile-controlled schedules of the acknowledgement (enumeration + proptest) and an end-to-end stress layer"},
            {"name": "SKETCH", "path": "harness/src/sketch.rs", "serves_properties": ["C14"], "kind_free_text": "differential tests of packed rows / count-min sketch / TinyLFU against an unpacked reference"},
            {"name": "FUZZ", "path": "harness/fuzz", "serves_properties": ["C01", "C03", "C04", "C05", "C06", "C07", "C08", "C09", "C10", "C11", "C14", "C16", "C17"], "kind_free_text": "cargo-fuzz / libFuzzer targets seq_history and sketch (coverage-guided, semantic oracle inside the target); thorough tier only"},
            {"name": "VOLUME", "path": "harness/src/volume.rs", "serves_properties": ["C03", "C05", "C09", "C10", "C15", "C16"], "kind_free_text": "generated bulk histories (thousands to 100 000 keys, up to 1024 expiry shards) in a roomy cache against a plain map; reads, physical state, accounting and every counter compared after each phase"},
            {"name": "CONC", "path": "harness/src/conc.rs", "serves_properties": ["C01", "C02", "C03", "C04", "C05", "C06", "C07", "C09", "C10", "C11", "C12", "C13", "C15", "C16", "C17", "C18"], "kind_free_text": "generated concurrent programs with delay injection at hook sites, stamped history, pure history checkers, no-progress watchdog"},
            {"name": "SEQ", "path": "harness/src/seq.rs", "serves_properties": sorted(k for k, v in CHECKS.items() if "SEQ" in v[0]), "kind_free_text": "sequential model-based histories (proptest) against a reference model, harness-owned clock, worker stall windows"},
        ],
        "checks": [],
        "not_applicable": [{"property_id": k, "reason": v} for k, v in sorted(PENDING.items())],
        "notes": "Engines per check: SEQ = sequential model-based histories, CONC = generated concurrent programs with history checkers (several profiles, see DESIGN.md 8), VOLUME = generated bulk histories of thousands of keys against a plain map, FUZZ = libFuzzer targets (thorough tier only), ACK / SKETCH as named; directed regression scenarios of repaired findings run inside the checks concerned. All checks: ./run <id> quick|thorough ; replay: ./run <id> --replay <file>. Exit 0 held, 1 VIOLATION, 2 inconclusive/infrastructure. Known findings: known_findings.json.",
    }
    for pid, (engine, technique, text, note, ref) in sorted(CHECKS.items()):
        manifest["checks"].append({
            "property_id": pid,
            "quick_cmd": f"./run {pid} quick",
            "thorough_cmd": f"./run {pid} thorough",
            "evidence_file": f"/verif/evidence/{pid}.json",
            "replay_cmd_template": f"./run {pid} --replay {{path}}",
            "engine": engine,
            "level_claimed": {"category": "exploration", "text": text, "design_ref": f"DESIGN.md section {ref}"},
            "level_note": note,
            "technique": technique,
        })
    json.dump(manifest, open(os.path.join(HERE, "MANIFEST.json"), "w"), indent=1)
main()
