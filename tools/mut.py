#!/usr/bin/env python3
"""Sensitivity helper: apply a textual mutation to /repo (must be clean), run checks, always revert.
usage: mut.py <file-relative-to-/repo> <old> <new> -- <Cxx> [<Cxx> ...]   (env TIER=quick)
Prints one line per check: property, exit code, first VIOLATION tag."""
import subprocess, sys, os
args = sys.argv[1:]
sep = args.index("--")
path, old, new = args[:sep]
checks = args[sep + 1:]
full = os.path.join("/repo", path)
assert subprocess.run(["git", "-C", "/repo", "status", "--porcelain", "--untracked-files=no"], capture_output=True, text=True).stdout.strip() == "", "/repo not clean"
text = open(full).read()
count = text.count(old)
assert count >= 1, f"pattern not found in {path}"
occurrence = int(os.environ.get("OCC", "0"))
if occurrence:
    parts = text.split(old)
    text2 = old.join(parts[:occurrence]) + new + old.join(parts[occurrence:])
else:
    assert count == 1, f"pattern found {count} times; set OCC=n"
    text2 = text.replace(old, new)
open(full, "w").write(text2)
try:
    if os.environ.get("TESTS"):
        r = subprocess.run("cd /repo && cargo nextest run --workspace --no-fail-fast --tool-config-file pb:/w/lib/nextest.toml --profile pb --test-threads 8 --offline 2>&1 | tail -3", shell=True, capture_output=True, text=True)
        print("repo tests:", r.stdout.strip().splitlines()[-1] if r.stdout.strip() else r.stderr[-200:])
    for check in checks:
        r = subprocess.run(["/verif/run", check, os.environ.get("TIER", "quick")], capture_output=True, text=True)
        lines = r.stdout.splitlines()
        tag = next((l.strip() for l in lines if l.strip().startswith("cause tag")), "")
        msg = ""
        for i, l in enumerate(lines):
            if l.strip().startswith("cause tag") and i + 1 < len(lines): msg = lines[i + 1].strip()[:160]
        other = [l for l in lines if "oracles of other properties failed" in l]
        print(f"{check}: exit {r.returncode} {tag} {msg}" + (f" | other: {other[0].split('failed:')[1][:150]}" if other and r.returncode == 0 else ""))
        if r.returncode == 2: print(r.stdout[-400:], r.stderr[-400:])
finally:
    subprocess.run(["git", "-C", "/repo", "checkout", "--", "."])
