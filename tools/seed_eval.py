#!/usr/bin/env python3
"""Confirms a seeded change produced by a sub-agent and runs the registered checks against it.
usage: seed_eval.py <name> <property> <worktree> <outdir> <checks...>
 1. in the agent's scratch worktree: existing suite passes with the change (demo moved aside), demo fails with the
    change, demo passes without it;
 2. copies patch.diff / demo / notes into /verif/seeded/<name>/ and writes meta.json;
 3. applies the patch to /repo, runs the given checks (quick), reverts /repo."""
import json, os, shutil, subprocess, sys, time
name, prop, wt, out = sys.argv[1:5]
checks = sys.argv[5:]
def sh(cmd, cwd=None, timeout=3000):
    r = subprocess.run(cmd, shell=True, cwd=cwd, capture_output=True, text=True, timeout=timeout)
    return r.returncode, (r.stdout + r.stderr)
demo = [f for f in os.listdir(out) if f.startswith("demo_") and f.endswith(".rs")][0]
demo_name = demo[:-3]
meta = {"name": name, "property": prop, "produced_by": "independent sub-agent given only the property text and a scratch worktree", "confirmed": {}}
# 1a suite with change, demo aside
demo_path = os.path.join(wt, "tests", demo)
aside = os.path.join(out, "_" + demo)
if os.path.exists(demo_path): shutil.move(demo_path, aside)
rc, o = sh("cargo nextest run --workspace --no-fail-fast --tool-config-file pb:/w/lib/nextest.toml --profile pb --test-threads 8 --offline 2>&1 | tail -5", cwd=wt)
summary = [l for l in o.splitlines() if "Summary" in l]
meta["confirmed"]["suite_with_change"] = summary[-1].strip() if summary else o[-300:]
shutil.copy(os.path.join(out, demo), demo_path)
# 1b demo with change
rc_with, o = sh(f"cargo test --offline --test {demo_name} 2>&1 | tail -15", cwd=wt)
res_with = [l for l in o.splitlines() if l.startswith("test result")]
meta["confirmed"]["demo_with_change"] = res_with[-1] if res_with else o[-300:]
# 1c demo without change
sh("git diff -- src > /tmp/_seed_patch.diff && git checkout -- src", cwd=wt)
rc_without, o = sh(f"cargo test --offline --test {demo_name} 2>&1 | tail -15", cwd=wt)
res_without = [l for l in o.splitlines() if l.startswith("test result")]
meta["confirmed"]["demo_without_change"] = res_without[-1] if res_without else o[-300:]
sh("git apply /tmp/_seed_patch.diff", cwd=wt)
# 2 store
dest = f"/verif/seeded/{name}"
os.makedirs(dest, exist_ok=True)
shutil.copy(os.path.join(out, "patch.diff"), dest)
shutil.copy(os.path.join(out, demo), dest)
if os.path.exists(os.path.join(out, "notes.md")): shutil.copy(os.path.join(out, "notes.md"), dest)
# 3 run checks against it
assert sh("git -C /repo status --porcelain --untracked-files=no")[1].strip() == "", "/repo not clean"
rc, o = sh(f"git -C /repo apply {dest}/patch.diff")
results = {}
if rc != 0:
    results["apply"] = o[-300:]
else:
    try:
        for check in checks:
            t = time.time()
            rc, o = sh(f"/verif/run {check} quick")
            lines = o.splitlines()
            tag = next((l.strip() for l in lines if l.strip().startswith("cause tag")), "")
            results[check] = {"exit": rc, "tag": tag.replace("cause tag: ", ""), "wall_s": round(time.time() - t, 1)}
    finally:
        sh("git -C /repo checkout -- .")
meta["checks_quick"] = results
meta["needs"] = ""
json.dump(meta, open(f"{dest}/meta.json", "w"), indent=1)
print(json.dumps(meta, indent=1))
