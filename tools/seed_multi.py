#!/usr/bin/env python3
"""seed_multi.py <seeded-name> <property> <verif_seed>...: detection of one seeded change across several VERIF_SEEDs."""
import subprocess, sys, time
name, prop = sys.argv[1:3]; seeds = sys.argv[3:]
def sh(cmd):
    r = subprocess.run(cmd, shell=True, capture_output=True, text=True); return r.returncode, r.stdout + r.stderr
assert sh("git -C /repo status --porcelain --untracked-files=no")[1].strip() == "", "/repo not clean"
rc, o = sh(f"git -C /repo apply /verif/seeded/{name}/patch.diff"); assert rc == 0, o
res = []
try:
    for seed in seeds:
        t = time.time(); rc, o = sh(f"VERIF_SEED={seed} /verif/run {prop} quick")
        tag = next((l.strip().replace("cause tag: ", "") for l in o.splitlines() if l.strip().startswith("cause tag")), "")
        camp = [l.split()[2] for l in o.splitlines() if l.startswith("[") and " campaign " in l]
        res.append((seed, rc, tag, camp[-1] if camp else "", round(time.time() - t, 1)))
finally:
    sh("git -C /repo checkout -- .")
print(name, prop, res)
